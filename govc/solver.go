package govc

// Solver portfolio: z3-new (5.1.0), z3 (4.8.12), cvc5 raced per obligation (DESIGN §3.10).

import (
	"bytes"
	"context"
	"os"
	"os/exec"
	"path/filepath"
	"strings"
	"sync"
	"time"
)

type SolveResult struct {
	Status  string // "unsat", "sat", "unknown", "timeout", "error"
	Solver  string
	Seconds float64
	Output  string // raw output of the deciding solver (model on sat)
	All     map[string]string
}

type solverSpec struct {
	name  string
	bin   string
	args  func(timeoutS int) []string
	cvc5  bool
	delay time.Duration // staggered start: cheap configurations first
}

var solverSpecs = []solverSpec{
	// E-matching only (no MBQI): decides most quantified obligations at once; `unknown` is inconclusive
	{"z3-new-5.1.0/ematch", "z3-new", func(t int) []string {
		return []string{"-smt2", "-T:" + itoa(t), "smt.mbqi=false", "smt.auto_config=false"}
	}, false, 0},
	{"cvc5-1.0.3", "cvc5", func(t int) []string {
		return []string{"--lang=smt2", "--incremental", "--tlimit=" + itoa(t*1000)}
	}, true, 0},
	{"z3-new-5.1.0", "z3-new", func(t int) []string { return []string{"-smt2", "-T:" + itoa(t)} }, false, 700 * time.Millisecond},
	{"z3-4.8.12/ematch", "z3", func(t int) []string {
		return []string{"-smt2", "-T:" + itoa(t), "smt.mbqi=false", "smt.auto_config=false"}
	}, false, 1500 * time.Millisecond},
	{"z3-4.8.12", "z3", func(t int) []string { return []string{"-smt2", "-T:" + itoa(t)} }, false, 1500 * time.Millisecond},
}

func itoa(n int) string {
	if n == 0 {
		return "0"
	}
	neg := n < 0
	if neg {
		n = -n
	}
	var b []byte
	for n > 0 {
		b = append([]byte{byte('0' + n%10)}, b...)
		n /= 10
	}
	if neg {
		b = append([]byte{'-'}, b...)
	}
	return string(b)
}

var solverAvail = map[string]bool{}
var solverAvailOnce sync.Once

func availableSolvers() []solverSpec {
	solverAvailOnce.Do(func() {
		for _, s := range solverSpecs {
			if _, err := exec.LookPath(s.bin); err == nil {
				solverAvail[s.name] = true
			}
		}
	})
	var out []solverSpec
	for _, s := range solverSpecs {
		if solverAvail[s.name] {
			out = append(out, s)
		}
	}
	return out
}

// Solve races the solvers on the script produced by mkScript(forCVC5).
// First `unsat` wins; `sat` from any solver stops the race. `only` (optional)
// restricts to a named solver.
func Solve(mkScript func(forCVC5 bool) string, timeoutS int, scratch string, tag string, only string) SolveResult {
	specs := availableSolvers()
	if len(specs) == 0 {
		return SolveResult{Status: "error", Output: "no SMT solver found on PATH"}
	}
	ctx, cancel := context.WithCancel(context.Background())
	defer cancel()
	type one struct {
		res SolveResult
	}
	ch := make(chan one, len(specs))
	n := 0
	scripts := map[bool]string{}
	for _, sp := range specs {
		if only != "" && !strings.HasPrefix(sp.name, only) {
			continue
		}
		if _, ok := scripts[sp.cvc5]; !ok {
			scripts[sp.cvc5] = mkScript(sp.cvc5)
		}
		script := scripts[sp.cvc5]
		n++
		go func(sp solverSpec, script string) {
			if sp.delay > 0 {
				select {
				case <-ctx.Done():
					ch <- one{SolveResult{Status: "cancelled", Solver: sp.name}}
					return
				case <-time.After(sp.delay):
				}
			}
			start := time.Now()
			fn := filepath.Join(scratch, tag+"."+strings.ReplaceAll(sp.name, "/", "-")+".smt2")
			_ = os.WriteFile(fn, []byte(script), 0o644)
			cctx, ccancel := context.WithTimeout(ctx, time.Duration(timeoutS+2)*time.Second)
			defer ccancel()
			cmd := exec.CommandContext(cctx, sp.bin, append(sp.args(timeoutS), fn)...)
			var out bytes.Buffer
			cmd.Stdout = &out
			cmd.Stderr = &out
			_ = cmd.Run()
			txt := out.String()
			// the verdict is the first line that is one (solvers may print warnings before it)
			first := ""
			for _, ln := range strings.Split(txt, "\n") {
				l := strings.TrimSpace(ln)
				if l == "sat" || l == "unsat" || l == "unknown" || l == "timeout" || strings.HasPrefix(l, "(error") {
					first = l
					break
				}
			}
			if i := strings.Index(txt, first); first != "" && i > 0 {
				txt = txt[i:]
			}
			st := "unknown"
			switch {
			case first == "unsat":
				st = "unsat"
			case first == "sat":
				st = "sat"
			case first == "timeout" || cctx.Err() == context.DeadlineExceeded || strings.Contains(txt, "interrupted by timeout"):
				st = "timeout"
			case strings.HasPrefix(first, "(error") || strings.Contains(first, "rror"):
				st = "error"
			}
			ch <- one{SolveResult{Status: st, Solver: sp.name, Seconds: time.Since(start).Seconds(), Output: txt}}
		}(sp, script)
	}
	all := map[string]string{}
	var best *SolveResult
	for i := 0; i < n; i++ {
		r := (<-ch).res
		if r.Status == "cancelled" {
			continue
		}
		all[r.Solver] = r.Status
		if r.Status == "unsat" || r.Status == "sat" {
			rr := r
			rr.All = all
			cancel()
			return rr
		}
		if best == nil || (best.Status == "error" && r.Status != "error") {
			rr := r
			best = &rr
		}
	}
	if best == nil {
		return SolveResult{Status: "error", Output: "no solver ran", All: all}
	}
	best.All = all
	// summarise: timeout if any timed out, else unknown/error
	for _, s := range all {
		if s == "timeout" {
			best.Status = "timeout"
		}
	}
	return *best
}
