package govc

// Symbolic execution of go/ssa functions in passive merged form (DESIGN §3.2, §3.5).

import (
	"fmt"
	"go/types"
	"sort"
	"strings"

	"golang.org/x/tools/go/ssa"
)

type Oblig struct {
	Name    string
	Kind    string
	Label   string
	Site    string
	Unit    string
	Goal    *Term   // pc => condition
	Parts   []*Term // when non-empty: the obligation is the conjunction of these goals, solved separately
	NAssume int     // assumptions [0,NAssume) are in scope
	Src     string
	Bounded bool
	Self    int    // index of the assumption entry derived from this obligation (-1 if none)
	Pre     *Oblig // after-call vacuity probes: the same probe taken just before the call (an infeasible path is not a vacuous contract)
	// result
	Status   string
	Solver   string
	Seconds  float64
	Output   string
	Trivial  bool
	FailPart int
	Cover    string // cover probes: reachable | unreachable | undecided
}

type assumption struct {
	T    *Term
	From *Oblig
}

type Exec struct {
	W    *World
	C    *Ctx
	Sh   *Shapes
	Unit *ssa.Function
	Spec *FuncSpec

	assumes []assumption
	obligs  []*Oblig
	names   map[string]int

	entry     *State
	entryHeap map[string]*Term
	compSorts map[string]Sort
	epoch     int
	dry       bool

	strLits    map[string]int
	strLitList []string
	zeroArrs   map[string]*Term

	loopWrites    map[string]map[string]bool
	loopAddrs     map[string]map[string]map[uint64]bool
	loopThreshold map[string]int
	activeLoops   []string

	notes    []string
	notesSet map[string]bool
	mods     *ModSet
	bounded  bool // inside/after a `bounded` loop: downstream obligations are labelled bounded
	held     map[string]bool

	callDepth   int
	unitName    string
	ghostLog    map[string]int
	sums        map[string]*sumInfo
	sumList     []*sumInfo
	specEnv0    *SpecEnv
	entryArgs   []Val
	retNames    []string
	loopsSeen   int
	termProved  []string
	termMissing []string

	checkLocks     bool
	checkFrames    bool
	noOverflow     bool
	globalIDs      map[string]int
	freshAddrs     map[int]bool
	boxed          []VPtr
	iters          []rangeIter
	curSite        string
	unitRets       []retInfo
	replayTerms    []replayTerm
	inlineOnly     map[string]bool
	nilChecked     map[int][]*Term
	compLeaf       map[string]Leaf
	slenAxiom      bool
	ranged         map[int]bool
	mapLenKeys     map[string]bool
	callpreUsed    map[string]bool
	coverBlocks    bool
	coverPCs       map[*ssa.BasicBlock][]*Term
	coverOrder     []*ssa.BasicBlock
	usedSpecs      map[string]*FuncSpec // callee contracts applied in this unit
	autoAcq        bool
	inFuncDispatch bool
	givenVals      map[string]*Term
	funcVals       []VFunc // function values (closures) that were stored in memory, by identity funcIDBase+index
	curAlloc       *Term
	slotAxiom      bool
	pendingDyn     map[string]*Term
	dynDone        map[string]bool
	extDone        map[string]bool
	inlineStack    []*ssa.Function
}

type Frame struct {
	fn       *ssa.Function
	env      map[ssa.Value]Val
	site     string
	spec     *FuncSpec // contract of this function if it is the unit (loops)
	bindings []Val
	defers   []deferred
	isUnit   bool
	names    map[string]ssa.Value // source variable name -> latest defining value (DebugRef)
	loops    map[*ssa.BasicBlock]*loopInfo
	curBlock *ssa.BasicBlock
	entrySt  *State
	args     []Val
	parent   *Frame // lexically enclosing frame (inlined closures see the enclosing function's names)
}

type deferred struct {
	call  *ssa.CallCommon
	guard *Term
	instr ssa.Instruction
}

type loopInfo struct {
	header    *ssa.BasicBlock
	ordinal   int
	body      map[*ssa.BasicBlock]bool
	key       string
	spec      *LoopSpec
	phiVals   map[*ssa.Phi]Val // havocked phi values (the arbitrary iteration)
	headSt    *State           // state at head of arbitrary iteration (after assuming inv)
	entrySt   *State           // state in which the loop was entered
	entryPhis map[*ssa.Phi]Val // header phi values on entry
	measure   *Term
}

type retInfo struct {
	st   *State
	vals []Val
}

func NewExec(w *World, unit *ssa.Function, spec *FuncSpec) *Exec {
	x := &Exec{W: w, C: NewCtx(), Sh: w.shapes(), Unit: unit, Spec: spec}
	x.reset()
	return x
}

const funcIDBase = 7000001

// funcID registers a function value created in this unit and returns its integer identity.
func (x *Exec) funcID(v VFunc) *Term {
	for i, w := range x.funcVals {
		if w.Fn == v.Fn && len(w.Bindings) == len(v.Bindings) {
			same := true
			for j := range w.Bindings {
				if !sameVal(w.Bindings[j], v.Bindings[j]) {
					same = false
				}
			}
			if same {
				return x.C.Int(int64(funcIDBase + i))
			}
		}
	}
	x.funcVals = append(x.funcVals, v)
	return x.C.Int(int64(funcIDBase + len(x.funcVals) - 1))
}

func (x *Exec) reset() {
	x.coverPCs = nil
	x.coverOrder = nil
	x.funcVals = nil
	x.givenVals = nil
	x.Sh.FuncID = x.funcID
	x.assumes = nil
	x.obligs = nil
	x.names = map[string]int{}
	x.entryHeap = map[string]*Term{}
	x.compSorts = map[string]Sort{}
	x.compLeaf = map[string]Leaf{}
	x.strLits = map[string]int{}
	x.strLitList = nil
	x.zeroArrs = map[string]*Term{}
	x.activeLoops = nil
	x.epoch = 0
	x.notesSet = map[string]bool{}
	x.notes = nil
	x.held = map[string]bool{}
	x.sums = map[string]*sumInfo{}
	x.sumList = nil
	x.bounded = false
	x.loopsSeen = 0
	x.termProved = nil
	x.termMissing = nil
	x.nilChecked = nil
	x.slenAxiom = false
	x.slotAxiom = false
	x.pendingDyn = map[string]*Term{}
	x.dynDone = map[string]bool{}
	x.extDone = map[string]bool{}
	x.ranged = map[int]bool{}
	x.mapLenKeys = map[string]bool{}
}

func (x *Exec) note(s string) {
	if !x.notesSet[s] {
		x.notesSet[s] = true
		x.notes = append(x.notes, s)
	}
}

func (x *Exec) noteWrite(key string) { x.noteWriteAt(key, nil) }

// noteWriteAt records that component key is written (at object/array address
// addr, nil = unknown) inside the active loops. In the dry pass, addresses that
// already existed when the loop was entered are loop invariant; they are
// remembered by structural hash so that the real pass can havoc the component
// at exactly those addresses (no quantified frame needed).
func (x *Exec) noteWriteAt(key string, addr *Term) {
	for _, l := range x.activeLoops {
		m := x.loopWrites[l]
		if m == nil {
			m = map[string]bool{}
			x.loopWrites[l] = m
		}
		m[key] = true
		if !x.dry {
			continue
		}
		am := x.loopAddrs[l]
		if am == nil {
			am = map[string]map[uint64]bool{}
			x.loopAddrs[l] = am
		}
		if am[key] == nil {
			am[key] = map[uint64]bool{}
		}
		if addr == nil || addr.open || addr.id >= x.loopThreshold[l] {
			am[key][0] = true // unknown / loop-variant address
		} else {
			am[key][addr.h] = true
		}
	}
}

func (x *Exec) assume(st *State, t *Term) {
	if x.dry || isTrue(t) {
		return
	}
	x.assumes = append(x.assumes, assumption{T: x.C.Implies(st.PC, t)})
}

func (x *Exec) assumeGlobal(t *Term) {
	if isTrue(t) {
		return
	}
	// global facts (axioms) are kept even in dry mode: they are state independent
	x.assumes = append(x.assumes, assumption{T: t})
}

// oblige records a proof obligation: under the current path condition, cond holds.
func (x *Exec) oblige(st *State, kind, label, site, src string, cond *Term) {
	if x.dry {
		return
	}
	name := fmt.Sprintf("%s/%s[%s]", x.unitName, kind, label)
	if site != "" {
		name += "@" + site
	}
	n := x.names[name]
	x.names[name] = n + 1
	if n > 0 {
		name = fmt.Sprintf("%s~%d", name, n+1)
	}
	goal := x.C.Implies(st.PC, cond)
	o := &Oblig{Name: name, Kind: kind, Label: label, Site: site, Unit: x.unitName, Goal: goal,
		NAssume: len(x.assumes), Src: src, Bounded: x.bounded, Self: -1}
	x.obligs = append(x.obligs, o)
	if !isTrue(goal) {
		if !hasQuant(goal) {
			// assert-then-assume (quantified goals are not assumed: they only slow later queries)
			o.Self = len(x.assumes)
			x.assumes = append(x.assumes, assumption{T: goal, From: o})
		}
	} else {
		o.Trivial = true
	}
}

// obligeParts records one obligation whose goal is the conjunction of parts
// (each part already carries its own path condition).
func (x *Exec) obligeParts(kind, label, site, src string, parts []*Term) *Oblig {
	if x.dry {
		return nil
	}
	name := fmt.Sprintf("%s/%s[%s]", x.unitName, kind, label)
	if site != "" {
		name += "@" + site
	}
	n := x.names[name]
	x.names[name] = n + 1
	if n > 0 {
		name = fmt.Sprintf("%s~%d", name, n+1)
	}
	o := &Oblig{Name: name, Kind: kind, Label: label, Site: site, Unit: x.unitName, Parts: parts,
		Goal: x.C.And(parts...), NAssume: len(x.assumes), Src: src, Bounded: x.bounded, Self: -1}
	if len(parts) == 0 {
		o.Trivial = true
	}
	x.obligs = append(x.obligs, o)
	return o
}

// ---- CFG helpers ----

func backEdge(from, to *ssa.BasicBlock) bool { return to.Dominates(from) }

// rpo returns the blocks in reverse post-order of the CFG without back edges.
func rpo(fn *ssa.Function) []*ssa.BasicBlock {
	seen := map[*ssa.BasicBlock]bool{}
	var post []*ssa.BasicBlock
	var dfs func(b *ssa.BasicBlock)
	dfs = func(b *ssa.BasicBlock) {
		seen[b] = true
		for _, s := range b.Succs {
			if backEdge(b, s) || seen[s] {
				continue
			}
			dfs(s)
		}
		post = append(post, b)
	}
	dfs(fn.Blocks[0])
	for i, j := 0, len(post)-1; i < j; i, j = i+1, j-1 {
		post[i], post[j] = post[j], post[i]
	}
	return post
}

func findLoops(fn *ssa.Function, site string) map[*ssa.BasicBlock]*loopInfo {
	loops := map[*ssa.BasicBlock]*loopInfo{}
	var headers []*ssa.BasicBlock
	for _, b := range fn.Blocks {
		for _, s := range b.Succs {
			if backEdge(b, s) {
				if loops[s] == nil {
					loops[s] = &loopInfo{header: s, body: map[*ssa.BasicBlock]bool{s: true}}
					headers = append(headers, s)
				}
				// natural loop of back edge b->s
				var stack []*ssa.BasicBlock
				if !loops[s].body[b] {
					loops[s].body[b] = true
					stack = append(stack, b)
				}
				for len(stack) > 0 {
					n := stack[len(stack)-1]
					stack = stack[:len(stack)-1]
					for _, p := range n.Preds {
						if !loops[s].body[p] {
							loops[s].body[p] = true
							stack = append(stack, p)
						}
					}
				}
			}
		}
	}
	sort.Slice(headers, func(i, j int) bool { return headers[i].Index < headers[j].Index })
	for i, h := range headers {
		loops[h].ordinal = i + 1
		loops[h].key = fmt.Sprintf("%s|%s|L%d", site, fn.String(), i+1)
	}
	return loops
}

// ---- state merge ----

func (x *Exec) mergeStates(sts []*State) *State {
	var live []*State
	for _, s := range sts {
		if s != nil && !isFalse(s.PC) {
			live = append(live, s)
		}
	}
	if len(live) == 0 {
		return nil
	}
	if len(live) == 1 {
		return live[0].Clone()
	}
	c := x.C
	out := live[len(live)-1].Clone()
	for i := len(live) - 2; i >= 0; i-- {
		s := live[i]
		// heap
		keys := map[string]bool{}
		for k := range out.Heap {
			keys[k] = true
		}
		for k := range s.Heap {
			keys[k] = true
		}
		for k := range keys {
			a, aok := s.Heap[k]
			b, bok := out.Heap[k]
			if !aok {
				a = x.heapGet(s, k, x.compSorts[k])
			}
			if !bok {
				b = x.heapGet(out, k, x.compSorts[k])
			}
			out.Heap[k] = c.Ite(s.PC, a, b)
		}
		for k, av := range s.Cells {
			if bv, ok := out.Cells[k]; ok {
				out.Cells[k] = x.iteVal(s.PC, av, bv)
			} else {
				out.Cells[k] = av
			}
		}
		out.Alloc = c.Ite(s.PC, s.Alloc, out.Alloc)
		out.PC = c.Or(s.PC, out.PC)
	}
	return out
}

func (x *Exec) iteVal(cond *Term, a, b Val) Val {
	if pa, ok := a.(VPtr); ok {
		pb, ok2 := b.(VPtr)
		if ok2 && ptrSameShape(pa, pb) {
			r := pa
			if pa.Obj != nil {
				r.Obj = x.C.Ite(cond, pa.Obj, pb.Obj)
			}
			if pa.Arr != nil {
				r.Arr = x.C.Ite(cond, pa.Arr, pb.Arr)
			}
			if pa.Idx != nil {
				r.Idx = x.C.Ite(cond, pa.Idx, pb.Idx)
			}
			return r
		}
		panic(unsupported("merge of distinct pointer descriptors"))
	}
	if fa, ok := a.(VFunc); ok {
		if fb, ok2 := b.(VFunc); ok2 && fa.Fn == fb.Fn && len(fa.Bindings) == len(fb.Bindings) {
			same := true
			for i := range fa.Bindings {
				if !sameVal(fa.Bindings[i], fb.Bindings[i]) {
					same = false
				}
			}
			if same {
				return fa
			}
		}
		panic(unsupported("merge of function values"))
	}
	if a == nil || b == nil {
		if a == nil {
			return b
		}
		return a
	}
	ta := x.Sh.Flatten(a)
	tb := x.Sh.Flatten(b)
	if len(ta) != len(tb) {
		panic(unsupported(fmt.Sprintf("merge of values with different shapes %T %T", a, b)))
	}
	out := make([]*Term, len(ta))
	for i := range ta {
		out[i] = x.C.Ite(cond, ta[i], tb[i])
	}
	return rebuildLike(a, out)
}

func ptrSameShape(a, b VPtr) bool {
	if a.Kind != b.Kind {
		return false
	}
	switch a.Kind {
	case PField:
		return a.OwnS == b.OwnS && a.Field == b.Field
	case PCell:
		return a.Glob == b.Glob
	case PElem:
		return types.Identical(a.Elem, b.Elem)
	case PArray:
		return types.Identical(a.Elem, b.Elem) && a.N == b.N
	case PGlobal:
		return a.Glob == b.Glob
	}
	return false
}

func rebuildLike(v Val, ts []*Term) Val {
	r, rest := rebuildLikeRec(v, ts)
	if len(rest) != 0 {
		panic("rebuildLike: leftover")
	}
	return r
}

func rebuildLikeRec(v Val, ts []*Term) (Val, []*Term) {
	switch v := v.(type) {
	case VInt:
		return VInt{ts[0]}, ts[1:]
	case VBool:
		return VBool{ts[0]}, ts[1:]
	case VSlice:
		return VSlice{ts[0], ts[1], ts[2], ts[3]}, ts[4:]
	case VIface:
		return VIface{ts[0], ts[1]}, ts[2:]
	case VStruct:
		fs := make([]Val, len(v.F))
		for i, f := range v.F {
			fs[i], ts = rebuildLikeRec(f, ts)
		}
		return VStruct{fs}, ts
	}
	panic(unsupported(fmt.Sprintf("rebuildLike %T", v)))
}

// ---- function execution ----

const maxInlineDepth = 14

// execFunc symbolically executes fn from state st with the given arguments and
// returns the merged result values and exit state (nil if no path returns).
func (x *Exec) execFunc(fn *ssa.Function, args []Val, bindings []Val, st *State, site string, isUnit bool) ([]Val, *State) {
	return x.execFuncIn(nil, fn, args, bindings, st, site, isUnit)
}

func (x *Exec) execFuncIn(caller *Frame, fn *ssa.Function, args []Val, bindings []Val, st *State, site string, isUnit bool) ([]Val, *State) {
	if len(fn.Blocks) == 0 {
		panic(unsupported("no body for " + fn.String()))
	}
	if x.callDepth > maxInlineDepth {
		panic(unsupported("inline depth exceeded at " + fn.String()))
	}
	x.callDepth++
	for _, f := range x.inlineStack {
		if f == fn {
			x.callDepth--
			panic(unsupported("recursive inlining of " + fn.String() + " (e.g. a method promoted from an embedded interface that is never set)"))
		}
	}
	x.inlineStack = append(x.inlineStack, fn)
	defer func() { x.callDepth--; x.inlineStack = x.inlineStack[:len(x.inlineStack)-1] }()

	fr := &Frame{fn: fn, env: map[ssa.Value]Val{}, site: site, bindings: bindings, isUnit: isUnit,
		names: map[string]ssa.Value{}, entrySt: st, args: args}
	if caller != nil && fn.Parent() != nil && caller.fn == fn.Parent() {
		fr.parent = caller
	}
	if isUnit {
		fr.spec = x.Spec
	} else if sp := x.W.Specs.Funcs[funcKey(fn)]; sp != nil {
		fr.spec = sp // loop invariants of an inlined function with a (partial) contract
	}
	for i, p := range fn.Params {
		fr.env[p] = args[i]
		fr.names[p.Name()] = p
	}
	for i, fv := range fn.FreeVars {
		fr.env[fv] = bindings[i]
		fr.names[fv.Name()] = fv
	}
	fr.loops = findLoops(fn, site)
	if len(fr.loops) > 0 {
		if n := loopKeywordCount(fn); n >= 0 && n != len(fr.loops) && fn.Synthetic == "" {
			x.note(fmt.Sprintf("%s: %d loop keywords but %d CFG loops", fn.String(), n, len(fr.loops)))
		}
	}

	order := rpo(fn)
	edge := map[*ssa.BasicBlock]map[*ssa.BasicBlock]*State{}
	var rets []retInfo
	x.runBlocks(fr, order, fn.Blocks[0], st, nil, edge, &rets, isUnit)
	if len(rets) == 0 {
		return nil, nil
	}
	var sts []*State
	for _, r := range rets {
		sts = append(sts, r.st)
	}
	// merge return values
	var live []retInfo
	for _, r := range rets {
		if !isFalse(r.st.PC) {
			live = append(live, r)
		}
	}
	if len(live) == 0 {
		return nil, nil
	}
	out := x.mergeStates(sts)
	vals := live[len(live)-1].vals
	for i := len(live) - 2; i >= 0; i-- {
		nv := make([]Val, len(vals))
		for j := range vals {
			nv[j] = x.iteVal(live[i].st.PC, live[i].vals[j], vals[j])
		}
		vals = nv
	}
	if isUnit {
		x.unitRets = rets
	}
	return vals, out
}

func (x *Exec) setEdge(fr *Frame, edge map[*ssa.BasicBlock]map[*ssa.BasicBlock]*State, from, to *ssa.BasicBlock, st *State) {
	if backEdge(from, to) {
		x.closeLoop(fr, fr.loops[to], from, st, false)
		return
	}
	// exit edge of a bottom-tested loop: the latch both loops back and leaves; on the exit edge the
	// invariant holds for the incremented loop variables (proved here, then available after the loop)
	for _, s2 := range from.Succs {
		if s2 != to && backEdge(from, s2) {
			if li := fr.loops[s2]; li != nil && !li.body[to] {
				x.closeLoop(fr, li, from, st, true)
			}
		}
	}
	if edge[from] == nil {
		edge[from] = map[*ssa.BasicBlock]*State{}
	}
	if old := edge[from][to]; old != nil {
		// both branches of an If to the same block
		edge[from][to] = x.mergeStates([]*State{old, st})
		return
	}
	edge[from][to] = st
}

func (x *Exec) siteOf(fr *Frame, ins ssa.Instruction) string {
	s := fr.site
	if v, ok := ins.(ssa.Value); ok && v.Name() != "" {
		if s != "" {
			return s + "/" + v.Name()
		}
		return v.Name()
	}
	if s != "" {
		return s + "/b" + fmt.Sprint(ins.Block().Index)
	}
	return "b" + fmt.Sprint(ins.Block().Index)
}

// ---- loops ----

func (x *Exec) havocAll(st *State) {
	x.epoch++
	for _, k := range heapKeys(st.Heap) {
		st.Heap[k] = x.C.Fresh("Hd!"+k, x.compSorts[k])
	}
	st.Alloc = x.C.Fresh("allocd", SInt)
}

func (x *Exec) enterLoop(fr *Frame, li *loopInfo, in *State, phiEntry map[*ssa.Phi]Val) *State {
	c := x.C
	var ls *LoopSpec
	if fr.spec != nil && fr.spec.Loops != nil {
		ls = fr.spec.Loops[li.ordinal]
	}
	// the unit may add invariants to the loops of a callee it executes by body (`inline`): the callee's own
	// loop contract cannot talk about what this particular caller knows (e.g. which closure it passed in)
	if x.Spec != nil && fr.spec != nil && fr.spec != x.Spec && x.Spec.ExtraLoops != nil {
		if ex := x.Spec.ExtraLoops[fmt.Sprintf("%s.%d", fr.spec.Name, li.ordinal)]; ex != nil {
			merged := &LoopSpec{}
			if ls != nil {
				*merged = *ls
			}
			merged.Invariants = append(append([]Clause{}, merged.Invariants...), ex.Invariants...)
			ls = merged
		}
	}
	li.spec = ls
	li.entrySt = in.Clone()
	li.entryPhis = phiEntry
	x.loopsSeen++
	st := in.Clone()
	// fresh values for header phis
	li.phiVals = map[*ssa.Phi]Val{}
	var phis []*ssa.Phi
	for _, ins := range li.header.Instrs {
		if phi, ok := ins.(*ssa.Phi); ok {
			phis = append(phis, phi)
		} else {
			break
		}
	}
	if x.dry {
		x.loopThreshold[li.key] = x.C.nextID
		x.havocAll(st)
		for _, phi := range phis {
			v := x.symbolicLike(phiEntry[phi], "phi!"+phi.Name(), phi.Type())
			li.phiVals[phi] = v
			fr.env[phi] = v
		}
		return st
	}
	if ls == nil || (len(ls.Invariants) == 0 && ls.Unroll == 0) {
		panic(unsupported(fmt.Sprintf("loop %d of %s has no invariant", li.ordinal, fr.fn.String())))
	}
	if ls.Unroll > 0 {
		panic(unsupported("unroll not implemented"))
	}
	lsite := fmt.Sprintf("L%d", li.ordinal)
	if fr.site != "" {
		lsite = fr.site + "/" + lsite
	}
	// 1. invariant holds on entry
	env := x.loopEnv(fr, li, phiEntry, in)
	for _, inv := range ls.Invariants {
		t := x.evalBool(inv.E, env)
		x.oblige(in, "inv", fmt.Sprintf("L%d.%s.init", li.ordinal, inv.Label), fr.site, inv.Src, t)
	}
	// 2. havoc what the loop may write
	writes := x.loopWrites[li.key]
	var keys []string
	for k := range writes {
		keys = append(keys, k)
	}
	sort.Strings(keys)
	pre := in
	pointwise := map[string]bool{}
	for _, k := range keys {
		if strings.HasPrefix(k, "cell:") {
			ck := strings.TrimPrefix(k, "cell:")
			if old, ok := st.Cells[ck]; ok {
				st.Cells[ck] = x.symbolicLikeVal(old, "cellh!"+ck)
			}
			continue
		}
		srt, ok := x.compSorts[k]
		if !ok {
			continue
		}
		if pw := x.pointwiseHavoc(st, li.key, k, srt); pw != nil {
			st.Heap[k] = pw
			pointwise[k] = true
			continue
		}
		st.Heap[k] = c.Fresh("Hl!"+k, srt)
	}
	st.Alloc = c.Fresh("alloc!loop", SInt)
	x.assume(st, c.Le(pre.Alloc, st.Alloc))
	x.curAlloc = st.Alloc
	var fkeys []string
	for _, k := range keys {
		if pointwise[k] {
			continue
		}
		fkeys = append(fkeys, k)
		if _, ok := x.compSorts[k]; ok && !strings.HasPrefix(k, "cell:") {
			x.rangeAxiom(k, st.Heap[k])
		}
	}
	x.frameAxioms(st, fkeys)
	// background invariant at this program point: in every reachable state the pointer-valued cells of
	// allocated objects refer to allocated objects (also for components the loop does not write, whose
	// objects may have been allocated by callees since the component's version was introduced)
	var allKeys []string
	for k := range x.compSorts {
		allKeys = append(allKeys, k)
	}
	sort.Strings(allKeys)
	for _, k := range allKeys {
		if !pointwise[k] {
			t := x.heapGet(st, k, x.compSorts[k])
			x.curAlloc = st.Alloc
			x.rangeAxiom(k, t)
		}
	}
	for _, phi := range phis {
		v := x.symbolicLike(phiEntry[phi], "phi!"+phi.Name(), phi.Type())
		li.phiVals[phi] = v
		fr.env[phi] = v
		if _, isPtr := v.(VPtr); !isPtr {
			x.assume(st, x.typeInv(st, v, phi.Type()))
		}
		// the hidden index of a range loop starts at -1 (slices) or 0 (range over int) and only counts up
		if vi, ok := v.(VInt); ok {
			switch phi.Comment {
			case "rangeindex":
				x.assume(st, c.Le(c.Int(-1), vi.T))
			case "rangeint.iter":
				x.assume(st, c.Le(c.Int(0), vi.T))
			}
		}
	}
	// 3. assume the invariant for the arbitrary iteration
	env = x.loopEnv(fr, li, li.phiVals, st)
	for _, inv := range ls.Invariants {
		x.assume(st, x.evalBool(inv.E, env))
	}
	if ls.Decreases != nil {
		li.measure = x.evalInt(ls.Decreases, env)
	}
	// vacuity probe: the invariant (with everything assumed so far) must be satisfiable
	if !x.dry {
		name := fmt.Sprintf("%s/vacuity[L%d.invariant-sat]", x.unitName, li.ordinal)
		if fr.site != "" {
			name += "@" + fr.site
		}
		x.obligs = append(x.obligs, &Oblig{Name: name, Kind: "vacuity", Unit: x.unitName, Goal: x.C.Not(st.PC),
			NAssume: len(x.assumes), Self: -1, Src: "loop invariant is satisfiable at the loop head (expected: sat)"})
	}
	for _, h := range ls.Hints {
		t := x.evalBool(h.E, env)
		x.oblige(st, "hint", fmt.Sprintf("L%d.%s", li.ordinal, h.Label), fr.site, h.Src, t)
		x.assume(st, t)
	}
	li.headSt = st.Clone()
	return st
}

// symbolicLike makes a fresh symbolic value shaped like proto (pointer
// descriptors keep their static part).
func (x *Exec) symbolicLike(proto Val, base string, t types.Type) Val {
	if p, ok := proto.(VPtr); ok {
		r := p
		if p.Obj != nil {
			r.Obj = x.C.Fresh(base+".obj", SInt)
		}
		if p.Arr != nil {
			r.Arr = x.C.Fresh(base+".arr", SInt)
		}
		if p.Idx != nil {
			r.Idx = x.C.Fresh(base+".idx", SInt)
		}
		return r
	}
	if f, ok := proto.(VFunc); ok {
		return f
	}
	return x.symbolic(base, t)
}

func (x *Exec) symbolicLikeVal(proto Val, base string) Val {
	ts := x.Sh.Flatten(proto)
	out := make([]*Term, len(ts))
	for i, t := range ts {
		out[i] = x.C.Fresh(fmt.Sprintf("%s.%d", base, i), t.sort)
	}
	return rebuildLike(proto, out)
}

func (x *Exec) closeLoop(fr *Frame, li *loopInfo, latch *ssa.BasicBlock, st *State, exit bool) {
	if x.dry || li == nil || li.spec == nil || isFalse(st.PC) {
		return
	}
	c := x.C
	// values flowing along the back edge
	vals := map[*ssa.Phi]Val{}
	for _, ins := range li.header.Instrs {
		phi, ok := ins.(*ssa.Phi)
		if !ok {
			break
		}
		for i, p := range li.header.Preds {
			if p == latch {
				vals[phi] = x.val(fr, phi.Edges[i])
			}
		}
	}
	// temporarily bind phis to back-edge values
	saved := map[*ssa.Phi]Val{}
	for phi, v := range vals {
		saved[phi] = fr.env[phi]
		fr.env[phi] = v
	}
	env := x.loopEnv(fr, li, vals, st)
	if exit {
		for _, inv := range li.spec.OnExit {
			t := x.evalBool(inv.E, env)
			x.oblige(st, "inv", fmt.Sprintf("L%d.%s.exit", li.ordinal, inv.Label), fr.site, inv.Src, t)
			x.assume(st, t)
		}
	} else {
		for _, inv := range li.spec.Invariants {
			t := x.evalBool(inv.E, env)
			x.oblige(st, "inv", fmt.Sprintf("L%d.%s.step", li.ordinal, inv.Label), fr.site, inv.Src, t)
		}
		if len(li.spec.Steps) > 0 && li.headSt != nil {
			// step clauses: prev(e) reads e at the head of this iteration (header phis at their head values)
			for phi := range vals {
				fr.env[phi] = li.phiVals[phi]
			}
			env.Prev = x.loopEnv(fr, li, li.phiVals, li.headSt)
			for phi, v := range vals {
				fr.env[phi] = v
			}
			for _, sc := range li.spec.Steps {
				t := x.evalBool(sc.E, env)
				x.oblige(st, "inv", fmt.Sprintf("L%d.%s.iter", li.ordinal, sc.Label), fr.site, sc.Src, t)
			}
		}
	}
	if exit {
		for phi, v := range saved {
			fr.env[phi] = v
		}
		return
	}
	if li.spec.Decreases != nil && li.measure != nil {
		m1 := x.evalInt(li.spec.Decreases, env)
		x.oblige(st, "var", fmt.Sprintf("L%d", li.ordinal), fr.site, li.spec.DecSrc,
			c.And(c.Le(c.Int(0), li.measure), c.Lt(m1, li.measure)))
	}
	for phi, v := range saved {
		fr.env[phi] = v
	}
}

// loopEnv builds the spec environment for loop invariants: function
// parameters, named locals, header phis by source name, $i = completed
// iterations of a range loop.
func (x *Exec) loopEnv(fr *Frame, li *loopInfo, phis map[*ssa.Phi]Val, st *State) *SpecEnv {
	env := x.frameEnv(fr, st)
	if li.entrySt != nil && st != li.entrySt {
		saved := map[*ssa.Phi]Val{}
		for phi, v := range li.entryPhis {
			saved[phi] = fr.env[phi]
			fr.env[phi] = v
		}
		ee := x.frameEnv(fr, li.entrySt)
		for phi, v := range li.entryPhis {
			if phi.Comment != "" && phi.Comment != "rangeindex" && phi.Comment != "rangeint.iter" {
				ee.Vars[phi.Comment] = SV{V: v, T: phi.Type()}
			}
		}
		for phi, v := range saved {
			fr.env[phi] = v
		}
		env.Entry = ee
	}
	for phi, v := range phis {
		if phi.Comment == "rangeindex" {
			if vi, ok := v.(VInt); ok {
				done := SV{V: VInt{x.C.Add(vi.T, x.C.Int(1))}, T: types.Typ[types.Int]}
				env.Vars["$i"] = done
				env.Vars[fmt.Sprintf("$i%d", li.ordinal)] = done
			}
			continue
		}
		if phi.Comment == "rangeint.iter" {
			if vi, ok := v.(VInt); ok {
				env.Vars["$i"] = SV{V: vi, T: phi.Type()}
				env.Vars[fmt.Sprintf("$i%d", li.ordinal)] = SV{V: vi, T: phi.Type()}
			}
			continue
		}
		if phi.Comment != "" {
			env.Vars[phi.Comment] = SV{V: v, T: phi.Type()}
		}
	}
	return env
}

// frameEnv: names visible to contracts of the frame's function at state st.
func (x *Exec) frameEnv(fr *Frame, st *State) *SpecEnv {
	env := &SpecEnv{X: x, Vars: map[string]SV{}, Cur: st, Old: fr.entrySt, Pkg: fr.fn.Pkg, Frame: fr}
	if fr.fn.Pkg == nil && fr.fn.Parent() != nil {
		env.Pkg = fr.fn.Parent().Pkg
	}
	spec := fr.spec
	// `given` parameters of the unit's own contract: arbitrary fixed integers
	if spec != nil && spec == x.Spec {
		for _, g := range spec.Given {
			if x.givenVals == nil {
				x.givenVals = map[string]*Term{}
			}
			t, ok := x.givenVals[g]
			if !ok {
				t = x.C.Const("given!"+g, SInt)
				x.givenVals[g] = t
			}
			env.Vars[g] = SV{V: VInt{t}, T: types.Typ[types.Int]}
		}
	}
	// parameters by contract position (contract names) and by source name
	for i, p := range fr.fn.Params {
		sv := SV{V: fr.env[p], T: p.Type()}
		env.Vars[p.Name()] = sv
		if spec != nil {
			if n := specParamName(spec, fr.fn, i); n != "" {
				env.Vars[n] = sv
			}
		}
	}
	for i, fv := range fr.fn.FreeVars {
		sv := SV{V: fr.env[fv], T: fv.Type()}
		env.Vars[fv.Name()] = sv
		if spec != nil && i < len(spec.Captures) {
			env.Vars[spec.Captures[i].Name] = sv
		}
	}
	// named locals with a unique definition dominating the current block
	for name, v := range fr.names {
		if _, ok := env.Vars[name]; ok {
			continue
		}
		if val, ok := fr.env[v]; ok {
			env.Vars[name] = SV{V: val, T: v.Type()}
		}
	}
	if spec != nil {
		env.Lets = spec.LetExprs
	}
	// names of the lexically enclosing function (for closures inlined into it)
	for p := fr.parent; p != nil; p = p.parent {
		for i, prm := range p.fn.Params {
			if _, ok := env.Vars[prm.Name()]; !ok {
				env.Vars[prm.Name()] = SV{V: p.env[prm], T: prm.Type()}
			}
			if p.spec != nil {
				if n := specParamName(p.spec, p.fn, i); n != "" {
					if _, ok := env.Vars[n]; !ok {
						env.Vars[n] = SV{V: p.env[prm], T: prm.Type()}
					}
				}
			}
		}
		for name, v := range p.names {
			if _, ok := env.Vars[name]; ok {
				continue
			}
			if val, ok := p.env[v]; ok {
				env.Vars[name] = SV{V: val, T: v.Type()}
			}
		}
	}
	return env
}

func specParamName(spec *FuncSpec, fn *ssa.Function, i int) string {
	// ssa params include the receiver first
	if fn.Signature.Recv() != nil {
		if i == 0 {
			return spec.RecvName
		}
		i--
	}
	if i < len(spec.Params) {
		return spec.Params[i].Name
	}
	return ""
}

func funcKey(fn *ssa.Function) string {
	if fn.Parent() != nil {
		// closure: parent key + $k
		pk := funcKey(fn.Parent())
		for i, a := range fn.Parent().AnonFuncs {
			if a == fn {
				return fmt.Sprintf("%s$%d", pk, i+1)
			}
		}
	}
	if fn.Pkg == nil || !strings.HasPrefix(fn.Pkg.Pkg.Path(), RepoModule) {
		return fn.String()
	}
	pkg := fn.Pkg.Pkg.Path()
	if r := fn.Signature.Recv(); r != nil {
		rt := r.Type()
		recv := ""
		if p, ok := rt.(*types.Pointer); ok {
			recv = "*"
			rt = p.Elem()
		}
		if n, ok := types.Unalias(rt).(*types.Named); ok {
			recv += n.Obj().Name()
		}
		return pkg + ".(" + recv + ")." + fn.Name()
	}
	return pkg + "." + fn.Name()
}

func hasQuant(t *Term) bool {
	seen := map[int]bool{}
	var rec func(t *Term) bool
	rec = func(t *Term) bool {
		if seen[t.id] {
			return false
		}
		seen[t.id] = true
		if len(t.vars) > 0 {
			return true
		}
		for _, a := range t.args {
			if rec(a) {
				return true
			}
		}
		return false
	}
	return rec(t)
}

// splitReturn: a block that only merges paths and returns is not executed on
// the merged state; each incoming path becomes its own return, so that
// postconditions are checked path by path (smaller queries, same meaning).
func (x *Exec) splitReturn(fr *Frame, b *ssa.BasicBlock, edge map[*ssa.BasicBlock]map[*ssa.BasicBlock]*State, rets *[]retInfo) bool {
	var ret *ssa.Return
	for _, ins := range b.Instrs {
		switch t := ins.(type) {
		case *ssa.Phi, *ssa.DebugRef:
		case *ssa.Return:
			ret = t
		default:
			return false
		}
	}
	if ret == nil || len(b.Preds) < 2 || len(fr.defers) > 0 {
		return false
	}
	for i, p := range b.Preds {
		e := edge[p][b]
		if e == nil || isFalse(e.PC) {
			continue
		}
		var vals []Val
		for _, r := range ret.Results {
			if phi, ok := r.(*ssa.Phi); ok && phi.Block() == b {
				vals = append(vals, x.val(fr, phi.Edges[i]))
			} else {
				vals = append(vals, x.val(fr, r))
			}
		}
		*rets = append(*rets, retInfo{e.Clone(), vals})
	}
	return true
}

// pointwiseHavoc: if every write of the loop to component k goes to an address
// that is loop invariant (known from the dry pass), the arbitrary-iteration
// value of k is the entry value updated at exactly those addresses.
func (x *Exec) pointwiseHavoc(st *State, loopKey, k string, srt Sort) *Term {
	am := x.loopAddrs[loopKey][k]
	if len(am) == 0 || am[0] || len(am) > 4 {
		return nil
	}
	cur, ok := st.Heap[k]
	if !ok {
		return nil
	}
	var addrs []*Term
	for h := range am {
		t := x.C.byHash[h]
		if t == nil || t.sort != SInt {
			return nil
		}
		addrs = append(addrs, t)
	}
	sort.Slice(addrs, func(i, j int) bool { return addrs[i].id < addrs[j].id })
	res := cur
	for _, a := range addrs {
		v := x.C.Fresh("Hp!"+k, srt.ElemSort())
		res = x.C.Store(res, a, v)
		// the fresh cell value is of the component's type
		x.pointRange(k, v, st)
	}
	return res
}

func (x *Exec) pointRange(k string, v *Term, st *State) {
	l, ok := x.compLeaf[k]
	if !ok || l.Type == nil || v.sort != SInt {
		return
	}
	c := x.C
	switch l.Role {
	case "len", "cap", "off":
		x.assumeGlobal(c.InRange(v, c.Int(0), c.Add(c.Pow2(47), c.Int(1))))
	case "arr":
		x.assumeGlobal(c.And(c.Le(c.Int(0), v), c.Le(v, st.Alloc)))
	case "":
		if b, isB := types.Unalias(l.Type).Underlying().(*types.Basic); isB {
			if lo, hi, ok := intRange(b); ok {
				x.assumeGlobal(c.InRange(v, c.BigInt(lo), c.BigInt(hi)))
			}
		}
		switch types.Unalias(l.Type).Underlying().(type) {
		case *types.Pointer, *types.Map, *types.Chan:
			x.assumeGlobal(c.And(c.Le(c.Int(0), v), c.Le(v, st.Alloc)))
		}
	}
}

// safeExecInstr executes one instruction. A construct outside the supported
// subset does not fail the unit outright: it becomes the obligation that this
// point is unreachable under the contract's preconditions (e.g. the JSON
// branch of SendSet under `requires !sendJSONRecord`), and the path ends.
func (x *Exec) safeExecInstr(fr *Frame, cur *State, ins ssa.Instruction) (ok bool) {
	defer func() {
		if r := recover(); r != nil {
			u, isU := r.(unsupportedErr)
			if !isU {
				panic(r)
			}
			if x.dry {
				cur.PC = x.C.False()
				ok = false
				return
			}
			x.oblige(cur, "unsupported", "unreachable", x.siteOf(fr, ins), "construct outside the verified subset must be unreachable: "+u.msg, x.C.False())
			x.note("outside the subset (proved unreachable or reported): " + u.msg)
			cur.PC = x.C.False()
			ok = false
		}
	}()
	x.execInstr(fr, cur, ins)
	return true
}

// sameVal: syntactic identity of two symbolic values.
func sameVal(a, b Val) bool {
	switch av := a.(type) {
	case VInt:
		bv, ok := b.(VInt)
		return ok && av.T == bv.T
	case VBool:
		bv, ok := b.(VBool)
		return ok && av.T == bv.T
	case VSlice:
		bv, ok := b.(VSlice)
		return ok && av == bv
	case VIface:
		bv, ok := b.(VIface)
		return ok && av == bv
	case VPtr:
		bv, ok := b.(VPtr)
		return ok && ptrSameShape(av, bv) && av.Obj == bv.Obj && av.Arr == bv.Arr && av.Idx == bv.Idx
	case VFunc:
		bv, ok := b.(VFunc)
		if !ok || av.Fn != bv.Fn || len(av.Bindings) != len(bv.Bindings) {
			return false
		}
		for i := range av.Bindings {
			if !sameVal(av.Bindings[i], bv.Bindings[i]) {
				return false
			}
		}
		return true
	case VStruct:
		bv, ok := b.(VStruct)
		if !ok || len(av.F) != len(bv.F) {
			return false
		}
		for i := range av.F {
			if !sameVal(av.F[i], bv.F[i]) {
				return false
			}
		}
		return true
	}
	return false
}

// runBlocks executes the blocks of `order` (reverse post-order of a region). The
// region's first block `start` begins in state st; when onlyPred != nil the
// region was entered along the single edge onlyPred->start (tail duplication).
func (x *Exec) runBlocks(fr *Frame, order []*ssa.BasicBlock, start *ssa.BasicBlock, st *State, onlyPred *ssa.BasicBlock,
	edge map[*ssa.BasicBlock]map[*ssa.BasicBlock]*State, rets *[]retInfo, isUnit bool) {
	done := map[*ssa.BasicBlock]bool{}
	for _, b := range order {
		if done[b] {
			continue
		}
		fr.curBlock = b
		var in *State
		li := fr.loops[b]
		if b == start {
			in = st.Clone()
		} else {
			var incoming []*State
			for _, p := range b.Preds {
				if backEdge(p, b) {
					continue
				}
				if e := edge[p][b]; e != nil {
					incoming = append(incoming, e)
				}
			}
			in = x.mergeStates(incoming)
		}
		if in == nil {
			continue
		}
		// cover probe (thorough tier): is this block of the unit reachable under the contract's preconditions
		// and everything assumed on the way? An unreachable block means the obligations behind it are vacuous:
		// reported in the evidence for review (dead code and excluded error paths are legitimately unreachable).
		if x.coverBlocks && isUnit && !x.dry && !isFalse(in.PC) {
			// a block may be executed several times (tail duplication): it is reachable if any of its visits is
			if x.coverPCs == nil {
				x.coverPCs = map[*ssa.BasicBlock][]*Term{}
			}
			if _, seen := x.coverPCs[b]; !seen {
				x.coverOrder = append(x.coverOrder, b)
			}
			x.coverPCs[b] = append(x.coverPCs[b], in.PC)
		}
		if isUnit && li == nil && b != start {
			if x.splitReturn(fr, b, edge, rets) {
				continue
			}
			// tail duplication: a loop-free tail after a merge point is executed once per incoming path
			if region := x.tailRegion(fr, b, edge); region != nil {
				for _, p := range b.Preds {
					e := edge[p][b]
					if e == nil || isFalse(e.PC) || backEdge(p, b) {
						continue
					}
					saved := make(map[ssa.Value]Val, len(fr.env))
					for k, v := range fr.env {
						saved[k] = v
					}
					savedNames := make(map[string]ssa.Value, len(fr.names))
					for k, v := range fr.names {
						savedNames[k] = v
					}
					sub := map[*ssa.BasicBlock]map[*ssa.BasicBlock]*State{p: {b: e}}
					x.runBlocks(fr, region, b, e, p, sub, rets, isUnit)
					fr.env = saved
					fr.names = savedNames
				}
				for _, rb := range region {
					done[rb] = true
				}
				continue
			}
		}
		// phis (entry values for loop headers)
		phiEntry := map[*ssa.Phi]Val{}
		for _, ins := range b.Instrs {
			phi, ok := ins.(*ssa.Phi)
			if !ok {
				break
			}
			var v Val
			first := true
			for i, p := range b.Preds {
				if backEdge(p, b) {
					continue
				}
				if b == start && onlyPred != nil && p != onlyPred {
					continue
				}
				e := edge[p][b]
				if e == nil || isFalse(e.PC) {
					continue
				}
				pv := x.val(fr, phi.Edges[i])
				if first {
					v = pv
					first = false
				} else {
					v = x.iteVal(e.PC, pv, v)
				}
			}
			phiEntry[phi] = v
			fr.env[phi] = v
			if phi.Comment != "" {
				fr.names[phi.Comment] = phi
			}
		}
		if li != nil {
			in = x.enterLoop(fr, li, in, phiEntry)
			if in == nil {
				continue
			}
		}
		// push active loops for blocks inside loops of this frame
		pushed := 0
		for _, l := range fr.loops {
			if l.body[b] {
				x.activeLoops = append(x.activeLoops, l.key)
				pushed++
			}
		}
		cur := in
		ended := false
		for _, ins := range b.Instrs {
			if _, ok := ins.(*ssa.Phi); ok {
				continue
			}
			if isFalse(cur.PC) {
				ended = true
				break
			}
			x.curSite = x.siteOf(fr, ins)
			switch t := ins.(type) {
			case *ssa.If:
				cond := x.val(fr, t.Cond).(VBool).T
				s0 := cur.Clone()
				s0.PC = x.C.And(cur.PC, cond)
				s1 := cur.Clone()
				s1.PC = x.C.And(cur.PC, x.C.Not(cond))
				x.setEdge(fr, edge, b, b.Succs[0], s0)
				x.setEdge(fr, edge, b, b.Succs[1], s1)
				ended = true
			case *ssa.Jump:
				x.setEdge(fr, edge, b, b.Succs[0], cur)
				ended = true
			case *ssa.Return:
				// deferred calls were run by the explicit RunDefers instruction that precedes every return
				var vals []Val
				for _, r := range t.Results {
					vals = append(vals, x.val(fr, r))
				}
				*rets = append(*rets, retInfo{cur, vals})
				ended = true
			case *ssa.Panic:
				x.oblige(cur, "safe:assert", "panic", x.siteOf(fr, ins), "explicit panic reachable", x.C.False())
				ended = true
			default:
				if !x.safeExecInstr(fr, cur, ins) {
					ended = true
				}
			}
			if ended {
				break
			}
		}
		x.activeLoops = x.activeLoops[:len(x.activeLoops)-pushed]
	}
}

// tailRegion: if block b merges >= 2 live paths and everything reachable from b is loop free,
// dominated by b and small, return that region in reverse post-order (b first).
func (x *Exec) tailRegion(fr *Frame, b *ssa.BasicBlock, edge map[*ssa.BasicBlock]map[*ssa.BasicBlock]*State) []*ssa.BasicBlock {
	live := 0
	for _, p := range b.Preds {
		if e := edge[p][b]; e != nil && !isFalse(e.PC) && !backEdge(p, b) {
			live++
		}
	}
	if live < 2 || len(fr.defers) > 0 && false {
		return nil
	}
	for _, l := range fr.loops {
		if l.body[b] {
			return nil // inside a loop body: the back edge must see one merged state
		}
	}
	seen := map[*ssa.BasicBlock]bool{}
	var post []*ssa.BasicBlock
	ok := true
	var dfs func(n *ssa.BasicBlock)
	dfs = func(n *ssa.BasicBlock) {
		seen[n] = true
		if fr.loops[n] != nil || !b.Dominates(n) {
			ok = false
			return
		}
		for _, s := range n.Succs {
			if backEdge(n, s) {
				ok = false
				return
			}
			if !seen[s] {
				dfs(s)
			}
		}
		post = append(post, n)
	}
	dfs(b)
	if !ok || len(post)*live > 60 {
		return nil
	}
	for i, j := 0, len(post)-1; i < j; i, j = i+1, j-1 {
		post[i], post[j] = post[j], post[i]
	}
	return post
}
