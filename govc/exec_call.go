package govc

// Calls: builtins, inlining, calls by contract, interface dispatch, native models.

import (
	"fmt"
	"go/types"
	"os"
	"regexp"
	"sort"
	"strings"

	"golang.org/x/tools/go/ssa"
)

func (x *Exec) call(fr *Frame, st *State, cc *ssa.CallCommon, ins ssa.Instruction) Val {
	site := x.siteOf(fr, ins)
	var args []Val
	for _, a := range cc.Args {
		args = append(args, x.val(fr, a))
	}
	if cc.IsInvoke() {
		recv := x.val(fr, cc.Value)
		return x.invoke(fr, st, cc, recv, args, site)
	}
	switch f := cc.Value.(type) {
	case *ssa.Builtin:
		return x.builtin(fr, st, f, cc, args, site)
	case *ssa.Function:
		return x.callStatic(fr, st, f, args, nil, site, cc)
	case *ssa.MakeClosure:
		fv := x.val(fr, f).(VFunc)
		return x.callStatic(fr, st, fv.Fn.(*ssa.Function), args, fv.Bindings, site, cc)
	}
	// function value
	fv := x.val(fr, cc.Value)
	if vf, ok := fv.(VFunc); ok {
		if fn, ok := vf.Fn.(*ssa.Function); ok {
			return x.callStatic(fr, st, fn, args, vf.Bindings, site, cc)
		}
	}
	if vi, ok := fv.(VInt); ok {
		return x.callFuncValue(fr, st, cc, vi.T, args, site)
	}
	panic(unsupported(fmt.Sprintf("call of %T", fv)))
}

func (x *Exec) tupleOrSingle(vals []Val, sig *types.Signature) Val {
	switch sig.Results().Len() {
	case 0:
		return nil
	case 1:
		return vals[0]
	}
	return VStruct{vals}
}

func (x *Exec) callStatic(fr *Frame, st *State, fn *ssa.Function, args []Val, bindings []Val, site string, cc *ssa.CallCommon) Val {
	key := funcKey(fn)
	cs := site + "/" + shortName(fn)
	// 1. native models
	if r, ok := x.native(fr, st, fn, args, cs); ok {
		return r
	}
	// 2. contract
	if sp := x.W.Specs.Funcs[key]; sp != nil && (len(sp.Ensures) > 0 || len(sp.Requires) > 0 || sp.Extern || sp.Pure || len(sp.Modifies) > 0 || sp.ModAny) && !(x.Unit == fn) {
		if !x.inlineOnly[key] {
			vals := x.applyContract(fr, st, sp, fn.Signature, fn, args, bindings, cs)
			return x.tupleOrSingle(vals, fn.Signature)
		}
	}
	// 3. inline
	if len(fn.Blocks) > 0 {
		vals, out := x.execFuncIn(fr, fn, args, bindings, st, cs, false)
		if out == nil {
			// callee never returns on this path (panics): path ends
			st.PC = x.C.False()
			return x.zeroResults(fn.Signature)
		}
		*st = *out
		return x.tupleOrSingle(vals, fn.Signature)
	}
	panic(unsupported("call to external function without model: " + fn.String()))
}

func (x *Exec) zeroResults(sig *types.Signature) Val {
	var vals []Val
	for i := 0; i < sig.Results().Len(); i++ {
		vals = append(vals, x.zero(sig.Results().At(i).Type()))
	}
	return x.tupleOrSingle(vals, sig)
}

func shortName(fn *ssa.Function) string {
	n := fn.Name()
	if r := fn.Signature.Recv(); r != nil {
		rt := r.Type()
		if p, ok := rt.(*types.Pointer); ok {
			rt = p.Elem()
		}
		if nt, ok := types.Unalias(rt).(*types.Named); ok {
			return nt.Obj().Name() + "." + n
		}
	}
	return n
}

// ---- interface dispatch ----

func ifaceKey(t types.Type, method string) string {
	return "(" + types.TypeString(types.Unalias(t), nil) + ")." + method
}

func (x *Exec) hasExternIface(t types.Type) bool {
	pfx := "(" + types.TypeString(types.Unalias(t), nil) + ")."
	for k, f := range x.W.Specs.Funcs {
		if f.Extern && strings.HasPrefix(k, pfx) {
			return true
		}
	}
	return false
}

func (x *Exec) invoke(fr *Frame, st *State, cc *ssa.CallCommon, recv Val, args []Val, site string) Val {
	c := x.C
	iv, ok := recv.(VIface)
	if !ok {
		panic(unsupported(fmt.Sprintf("invoke on %T", recv)))
	}
	it := cc.Value.Type()
	mname := cc.Method.Name()
	sig := cc.Method.Type().(*types.Signature)
	cs := site + "/" + mname
	// extern contract for the interface method (abstract dependencies: net.Conn, error, timer...)
	if sp := x.W.Specs.Funcs[ifaceKey(it, mname)]; sp != nil {
		x.oblige(st, "safe:nil", "invoke", cs, "method call on nil interface", c.Ne(iv.Tag, c.Int(0)))
		vals := x.applyContract(fr, st, sp, sig, nil, append([]Val{recv}, args...), nil, cs)
		return x.tupleOrSingle(vals, sig)
	}
	if isErrorType(it) && mname == "Error" {
		r := c.Fresh("errstr", SInt)
		x.assume(st, x.strLenFacts(r))
		return VInt{r}
	}
	impls := x.W.Implementers(it.Underlying().(*types.Interface))
	if len(impls) == 0 {
		panic(unsupported("invoke " + ifaceKey(it, mname) + ": no closed-world implementers and no extern contract"))
	}
	x.oblige(st, "safe:nil", "invoke", cs, "method call on nil interface", c.Ne(iv.Tag, c.Int(0)))
	base := st.Clone()
	var outs []*State
	var results [][]Val
	for _, im := range impls {
		tag := c.Int(int64(x.W.TypeTag(im)))
		arm := base.Clone()
		arm.PC = c.And(base.PC, c.Eq(iv.Tag, tag))
		if isFalse(arm.PC) {
			continue
		}
		sel := x.W.Prog.MethodSets.MethodSet(im).Lookup(cc.Method.Pkg(), mname)
		if sel == nil {
			continue
		}
		m := x.W.Prog.MethodValue(sel)
		if m == nil {
			continue
		}
		var rv Val
		if bp, boxed := x.unboxPtr(iv.Val); boxed {
			rv = bp // a descriptor pointer (pointer to a slice or scalar cell) boxed into the interface
		} else if _, isPtr := im.Underlying().(*types.Pointer); isPtr {
			rv = VInt{iv.Val}
		} else {
			rv = x.unboxVal(arm, iv.Val, im)
		}
		asite := cs + "<" + strings.TrimPrefix(typeName(im), "*")
		r := x.callStatic(fr, arm, m, append([]Val{rv}, args...), nil, asite, cc)
		if isFalse(arm.PC) {
			continue
		}
		outs = append(outs, arm)
		var vs []Val
		switch sig.Results().Len() {
		case 0:
		case 1:
			vs = []Val{r}
		default:
			vs = r.(VStruct).F
		}
		results = append(results, vs)
	}
	if len(outs) == 0 {
		st.PC = c.False()
		return x.zeroResults(sig)
	}
	merged := x.mergeStates(outs)
	vals := results[len(results)-1]
	for i := len(results) - 2; i >= 0; i-- {
		nv := make([]Val, len(vals))
		for j := range vals {
			nv[j] = x.iteVal(outs[i].PC, results[i][j], vals[j])
		}
		vals = nv
	}
	// the receiver's tag is one of the implementers by the interface type invariant
	*st = *merged
	return x.tupleOrSingle(vals, sig)
}

// callFuncValue: call through a function-typed value (parameter / field).
// The callee is unknown: it is given the contract attached to the function
// type by a spec (`extern "functype:<Named>"`), else unsupported.
func (x *Exec) callFuncValue(fr *Frame, st *State, cc *ssa.CallCommon, f *Term, args []Val, site string) Val {
	ft := types.Unalias(cc.Value.Type())
	key := "functype:" + typeName(ft)
	sig := ft.Underlying().(*types.Signature)
	// function values created in this unit and stored in memory (closures passed through slices or fields):
	// dispatch on the identity; any other value falls through to the function type's contract
	if len(x.funcVals) > 0 && !x.inFuncDispatch {
		c := x.C
		base := st.Clone()
		var outs []*State
		var results [][]Val
		others := base.PC
		known := append([]VFunc{}, x.funcVals...)
		for i, fv := range known {
			fn, ok := fv.Fn.(*ssa.Function)
			if !ok || !types.Identical(fn.Signature.Underlying(), sig) && fn.Signature.Params().Len() != sig.Params().Len() {
				continue
			}
			id := c.Int(int64(funcIDBase + i))
			arm := base.Clone()
			arm.PC = c.And(base.PC, c.Eq(f, id))
			others = c.And(others, c.Ne(f, id))
			if isFalse(arm.PC) {
				continue
			}
			r := x.callStatic(fr, arm, fn, args, fv.Bindings, fmt.Sprintf("%s/fn%d", site, i), cc)
			if isFalse(arm.PC) {
				continue
			}
			outs = append(outs, arm)
			var vs []Val
			switch sig.Results().Len() {
			case 0:
			case 1:
				vs = []Val{r}
			default:
				vs = r.(VStruct).F
			}
			results = append(results, vs)
		}
		rest := base.Clone()
		rest.PC = others
		if !isFalse(rest.PC) {
			x.inFuncDispatch = true
			r := x.callFuncValue(fr, rest, cc, f, args, site)
			x.inFuncDispatch = false
			if !isFalse(rest.PC) {
				outs = append(outs, rest)
				var vs []Val
				switch sig.Results().Len() {
				case 0:
				case 1:
					vs = []Val{r}
				default:
					vs = r.(VStruct).F
				}
				results = append(results, vs)
			}
		}
		if len(outs) == 0 {
			st.PC = c.False()
			return x.zeroResults(sig)
		}
		merged := x.mergeStates(outs)
		vals := results[len(results)-1]
		for i := len(results) - 2; i >= 0; i-- {
			nv := make([]Val, len(vals))
			for j := range vals {
				nv[j] = x.iteVal(outs[i].PC, results[i][j], vals[j])
			}
			vals = nv
		}
		*st = *merged
		return x.tupleOrSingle(vals, sig)
	}
	if sp := x.W.Specs.Funcs[key]; sp != nil {
		x.oblige(st, "safe:nil", "callfunc", site, "call of nil function value", x.C.Ne(f, x.C.Int(0)))
		vals := x.applyContract(fr, st, sp, sig, nil, args, nil, site+"/"+sanitize(typeName(ft)))
		return x.tupleOrSingle(vals, sig)
	}
	panic(unsupported("call through function value of type " + ft.String() + " without a functype contract"))
}

// ---- defers ----

func (x *Exec) runDefers(fr *Frame, st *State) {
	ds := fr.defers
	for i := len(ds) - 1; i >= 0; i-- {
		d := ds[i]
		// the defer statement was reached iff its guard held; guards are
		// path conditions, so on the current path this is (st.PC => guard) or its negation
		g := d.guard
		run := st.Clone()
		run.PC = x.C.And(st.PC, g)
		if isFalse(run.PC) {
			continue
		}
		skip := st.Clone()
		skip.PC = x.C.And(st.PC, x.C.Not(g))
		saved := fr.defers
		fr.defers = nil
		x.call(fr, run, d.call, d.instr)
		fr.defers = saved
		m := x.mergeStates([]*State{run, skip})
		if m == nil {
			st.PC = x.C.False()
			return
		}
		*st = *m
	}
}

// ---- builtins ----

func (x *Exec) builtin(fr *Frame, st *State, b *ssa.Builtin, cc *ssa.CallCommon, args []Val, site string) Val {
	c := x.C
	switch b.Name() {
	case "len":
		switch a := args[0].(type) {
		case VSlice:
			return VInt{a.Len}
		case VInt:
			t := cc.Args[0].Type().Underlying()
			if bt, ok := t.(*types.Basic); ok && bt.Info()&types.IsString != 0 {
				x.assume(st, x.strLenFacts(a.T))
				return VInt{x.slen(a.T)}
			}
			if mt, ok := t.(*types.Map); ok {
				return VInt{x.mapLen(st, mt, a.T)}
			}
			if _, ok := t.(*types.Chan); ok {
				r := c.Fresh("chanlen", SInt)
				x.assume(st, c.Le(c.Int(0), r))
				return VInt{r}
			}
		case VPtr:
			if a.Kind == PArray {
				return VInt{c.Int(a.N)}
			}
		}
	case "cap":
		if a, ok := args[0].(VSlice); ok {
			return VInt{a.Cap}
		}
	case "append":
		return x.appendOp(fr, st, cc, args, site)
	case "copy":
		return x.copyOp(fr, st, cc, args, site)
	case "delete":
		mt := cc.Args[0].Type().Underlying().(*types.Map)
		x.mapDelete(st, mt, args[0].(VInt).T, args[1], site)
		return nil
	case "print", "println":
		return nil
	case "min", "max":
		r := args[0].(VInt).T
		for _, a := range args[1:] {
			if b.Name() == "min" {
				r = c.Min(r, a.(VInt).T)
			} else {
				r = c.Max(r, a.(VInt).T)
			}
		}
		return VInt{r}
	case "close":
		x.note("close(chan) has no effect in the sequential semantics")
		return nil
	case "ssa:wrapnilchk":
		return args[0]
	}
	panic(unsupported("builtin " + b.Name()))
}

func (x *Exec) appendOp(fr *Frame, st *State, cc *ssa.CallCommon, args []Val, site string) Val {
	c := x.C
	s := args[0].(VSlice)
	st0 := cc.Args[0].Type().Underlying().(*types.Slice)
	elem := st0.Elem()
	var n *Term
	var src VSlice
	srcIsString := false
	var srcStr *Term
	switch a := args[1].(type) {
	case VSlice:
		src = a
		n = a.Len
	case VInt: // append([]byte, string...)
		srcIsString = true
		srcStr = a.T
		n = x.slen(a.T)
	default:
		panic(unsupported("append with " + fmt.Sprintf("%T", args[1])))
	}
	newLen := c.Add(s.Len, n)
	inPlace := c.Le(newLen, s.Cap)
	if n.ival != nil && n.ival.Sign() == 0 {
		return s
	}
	leaves := x.Sh.Leaves(elem)
	// fresh array for the reallocating case
	fresh := x.allocAddr(st)
	newCap := c.Fresh("appendcap", SInt)
	x.assume(st, c.And(c.Le(newLen, newCap), c.Le(newCap, c.Pow2(47))))
	resArr := c.Ite(inPlace, s.Arr, fresh)
	resOff := c.Ite(inPlace, s.Off, c.Int(0))
	resCap := c.Ite(inPlace, s.Cap, newCap)
	for li, l := range leaves {
		key, comp := x.elemsComp(st, elem, l)
		oldInner := c.Select(comp, s.Arr)
		var srcAt func(j *Term) *Term
		if srcIsString {
			srcAt = func(j *Term) *Term { return x.sat(srcStr, j) }
		} else {
			srcInner := c.Select(comp, src.Arr)
			srcAt = func(j *Term) *Term { return c.Select(srcInner, x.slot(src.Off, j)) }
		}
		// new inner array content A' for the result array
		np := c.Fresh("arr!append", ArrSort(SInt, l.Sort))
		i := c.NewBound("i", SInt)
		sel := c.Select(np, i)
		// positions relative to result offset
		rel := c.Sub(i, resOff)
		// old elements
		cOld := c.Implies(c.InRange(rel, c.Int(0), s.Len), c.Eq(sel, c.Select(oldInner, x.slot(s.Off, rel))))
		// appended elements
		cNew := c.Implies(c.InRange(rel, s.Len, newLen), c.Eq(sel, srcAt(c.Sub(rel, s.Len))))
		// in place: everything outside the appended window is unchanged
		cFrame := c.Implies(c.And(inPlace, c.Not(c.InRange(rel, s.Len, newLen))), c.Eq(sel, c.Select(oldInner, i)))
		x.assume(st, c.Forall([]*Term{i}, c.And(cOld, cNew, cFrame), []*Term{sel}))
		// the same facts in index-relative form (no arithmetic between trigger and conclusion)
		r := c.NewBound("r", SInt)
		selR := c.Select(np, x.slot(resOff, r))
		x.assume(st, c.Forall([]*Term{r}, c.Implies(c.InRange(r, c.Int(0), s.Len),
			c.Eq(selR, c.Select(oldInner, x.slot(s.Off, r)))), []*Term{selR}))
		if n.ival != nil && n.ival.IsInt64() && n.ival.Int64() <= 4 {
			for k := int64(0); k < n.ival.Int64(); k++ {
				x.assume(st, c.Eq(c.Select(np, x.slot(resOff, c.Add(s.Len, c.Int(k)))), srcAt(c.Int(k))))
			}
		}
		if li == 0 && !x.dry {
			// frame: the in-place case writes into the existing backing array
			x.frameCheckElemRange(st, key, s.Arr, c.Add(s.Off, s.Len), c.Add(s.Off, newLen), inPlace, site)
		}
		x.heapSet(st, key, c.Store(comp, resArr, np))
	}
	return VSlice{resArr, resOff, newLen, resCap}
}

func (x *Exec) copyOp(fr *Frame, st *State, cc *ssa.CallCommon, args []Val, site string) Val {
	c := x.C
	dst := args[0].(VSlice)
	elem := cc.Args[0].Type().Underlying().(*types.Slice).Elem()
	var n *Term
	var srcAt func(comp *Term, j *Term) *Term
	switch a := args[1].(type) {
	case VSlice:
		n = c.Min(dst.Len, a.Len)
		srcAt = func(comp *Term, j *Term) *Term { return c.Select(c.Select(comp, a.Arr), x.slot(a.Off, j)) }
	case VInt:
		n = c.Min(dst.Len, x.slen(a.T))
		x.assume(st, x.strLenFacts(a.T))
		srcAt = func(comp *Term, j *Term) *Term { return x.sat(a.T, j) }
	default:
		panic(unsupported("copy from " + fmt.Sprintf("%T", args[1])))
	}
	for li, l := range x.Sh.Leaves(elem) {
		key, comp := x.elemsComp(st, elem, l)
		oldInner := c.Select(comp, dst.Arr)
		np := c.Fresh("arr!copy", ArrSort(SInt, l.Sort))
		i := c.NewBound("i", SInt)
		sel := c.Select(np, i)
		rel := c.Sub(i, dst.Off)
		in := c.InRange(rel, c.Int(0), n)
		body := c.And(
			c.Implies(in, c.Eq(sel, srcAt(comp, rel))),
			c.Implies(c.Not(in), c.Eq(sel, c.Select(oldInner, i))))
		x.assume(st, c.Forall([]*Term{i}, body, []*Term{sel}))
		r := c.NewBound("r", SInt)
		selR := c.Select(np, x.slot(dst.Off, r))
		x.assume(st, c.Forall([]*Term{r}, c.Implies(c.InRange(r, c.Int(0), n), c.Eq(selR, srcAt(comp, r))), []*Term{selR}))
		if li == 0 && !x.dry {
			x.frameCheckElemRange(st, key, dst.Arr, dst.Off, c.Add(dst.Off, n), c.True(), site)
		}
		x.heapSet(st, key, c.Store(comp, dst.Arr, np))
	}
	return VInt{n}
}

// ---- contracts at call sites ----

// applyContract: assert requires, havoc modifies, assume ensures (DESIGN §3.6).
func (x *Exec) applyContract(fr *Frame, st *State, sp *FuncSpec, sig *types.Signature, fn *ssa.Function, args []Val, bindings []Val, site string) []Val {
	c := x.C
	pre := st.Clone()
	env := &SpecEnv{X: x, Vars: map[string]SV{}, Cur: pre, Old: pre, Lets: sp.LetExprs, Frame: fr}
	if fn != nil {
		env.Pkg = fn.Pkg
		if env.Pkg == nil && fn.Parent() != nil {
			env.Pkg = fn.Parent().Pkg
		}
	}
	if env.Pkg == nil && fr != nil {
		env.Pkg = fr.fn.Pkg
	}
	// bind parameters
	idx := 0
	if sig.Recv() != nil || (fn == nil && len(args) == sig.Params().Len()+1) {
		var rt types.Type
		if sig.Recv() != nil {
			rt = sig.Recv().Type()
		}
		name := sp.RecvName
		if sp.Extern && len(sp.Params) > 0 {
			name = sp.Params[0].Name
		}
		if name != "" && name != "_" {
			env.Vars[name] = SV{V: args[0], T: rt}
		}
		idx = 1
	}
	pnames := sp.Params
	if sp.Extern && idx == 1 && len(pnames) > 0 {
		pnames = pnames[1:]
	}
	for i := 0; i < sig.Params().Len(); i++ {
		if i < len(pnames) && idx+i < len(args) {
			env.Vars[pnames[i].Name] = SV{V: args[idx+i], T: sig.Params().At(i).Type()}
		}
	}
	if fn != nil {
		for i, fv := range fn.FreeVars {
			if i < len(bindings) {
				env.Vars[fv.Name()] = SV{V: bindings[i], T: fv.Type()}
				if i < len(sp.Captures) {
					env.Vars[sp.Captures[i].Name] = SV{V: bindings[i], T: fv.Type()}
				}
			}
		}
	}
	if !x.dry {
		if x.usedSpecs == nil {
			x.usedSpecs = map[string]*FuncSpec{}
		}
		x.usedSpecs[sp.Key()] = sp
	}
	// probe taken before the call (see the after-call vacuity probe below)
	var preProbe *Oblig
	if !x.dry && len(sp.Ensures) > 0 {
		preProbe = &Oblig{Name: x.unitName + "/vacuity[before-call]", Kind: "vacuity", Unit: x.unitName, Goal: x.C.Not(st.PC), NAssume: len(x.assumes), Self: -1}
	}
	// requires
	for _, r := range sp.Requires {
		t := x.evalBool(r.E, env)
		x.oblige(st, "pre", calleeLabel(sp)+"."+r.Label, site, r.Src, t)
	}
	// call-site assertions of the calling unit (callpre)
	// the unit's callpre clauses also apply inside functions and closures it executes by body
	cpSpec := x.Spec
	if fr != nil && fr.spec != nil && fr.spec.CallPre != nil {
		cpSpec = fr.spec
	}
	if fr != nil && cpSpec != nil && cpSpec.CallPre != nil {
		// the callee may be named by its function name, T.name, or (*T).name / (T).name
		var cl []Clause
		for _, name := range []string{sp.Name, calleeLabel(sp), "(" + sp.Recv + ")." + sp.Name} {
			if c2, ok := cpSpec.CallPre[name]; ok {
				cl = c2
				if x.callpreUsed == nil {
					x.callpreUsed = map[string]bool{}
				}
				x.callpreUsed[cpSpec.Key()+"|"+name] = true
				break
			}
		}
		if cl != nil {
			cenv := x.frameEnv(fr, pre)
			for k, v := range env.Vars {
				cenv.Vars[k] = v
			}
			for _, cpre := range cl {
				t := x.evalBool(cpre.E, cenv)
				x.oblige(st, "callpre", calleeLabel(sp)+"."+cpre.Label, site, cpre.Src, t)
			}
		}
	}
	// havoc footprint
	if !sp.Pure {
		ms := x.evalModSet(sp, env)
		x.calleeFrameCheck(st, ms, site)
		x.havocFootprint(st, pre, ms)
	}
	// results
	var results []Val
	for i := 0; i < sig.Results().Len(); i++ {
		rt := sig.Results().At(i).Type()
		v := x.symbolic("ret!"+sanitize(calleeLabel(sp)), rt)
		x.assume(st, x.typeInv(st, v, rt))
		results = append(results, v)
		if i < len(sp.Results) {
			env.Vars[sp.Results[i].Name] = SV{V: v, T: rt}
		}
	}
	env.Cur = st
	for _, e := range sp.Ensures {
		if mentionsGiven(sp, e.Src) {
			// stated for the contract's `given` parameters and proved in the callee's unit for ALL their values: used here
			// only when the calling unit has `given` parameters of the same names, and then at exactly those values
			// (an instance of the universally quantified clause); otherwise not used
			if !x.bindCalleeGivens(sp, e.Src, env) {
				continue
			}
		}
		t := x.evalBool(e.E, env)
		if os.Getenv("GOVC_DEBUG") != "" && !x.dry {
			fmt.Printf("  assume %s.%s at %s: trivial=%v size=%d\n", calleeLabel(sp), e.Label, site, isTrue(t), len(t.String()))
		}
		x.assume(st, t)
	}
	// vacuity probe: the callee's postconditions, assumed here, must not contradict what is known at the call
	// site (a contradictory or mis-stated callee contract would make everything after the call provable)
	if !x.dry && len(sp.Ensures) > 0 && !isFalse(st.PC) {
		name := fmt.Sprintf("%s/vacuity[after-call %s@%s]", x.unitName, calleeLabel(sp), site)
		if n := x.names[name]; n > 0 {
			x.names[name] = n + 1
			name = fmt.Sprintf("%s~%d", name, n+1)
		} else {
			x.names[name] = 1
		}
		x.obligs = append(x.obligs, &Oblig{Name: name, Kind: "vacuity", Unit: x.unitName, Goal: c.Not(st.PC), Pre: preProbe,
			NAssume: len(x.assumes), Self: -1, Src: "the state after assuming the callee's postconditions is satisfiable (expected: sat)"})
	}
	// call-site assertions after the call (callpost): checked in the state after the call, then assumed
	if fr != nil && !x.dry {
		cpSpec := x.Spec
		if fr.spec != nil && fr.spec.CallPost != nil {
			cpSpec = fr.spec
		}
		if cpSpec != nil && cpSpec.CallPost != nil {
			for _, name := range []string{sp.Name, calleeLabel(sp), "(" + sp.Recv + ")." + sp.Name} {
				cl, ok := cpSpec.CallPost[name]
				if !ok {
					continue
				}
				if x.callpreUsed == nil {
					x.callpreUsed = map[string]bool{}
				}
				x.callpreUsed[cpSpec.Key()+"|post|"+name] = true
				cenv := x.frameEnv(fr, st)
				for _, cp := range cl {
					t := x.evalBool(cp.E, cenv)
					x.oblige(st, "callpost", calleeLabel(sp)+"."+cp.Label, site, cp.Src, t)
					x.assume(st, t)
				}
				break
			}
		}
	}
	return results
}

func calleeLabel(sp *FuncSpec) string {
	if sp.Extern {
		return sp.Name
	}
	if sp.Recv != "" {
		return strings.TrimPrefix(sp.Recv, "*") + "." + sp.Name
	}
	return sp.Name
}

// ---- native models (no heap effect unless stated) ----

func pkgPathOf(fn *ssa.Function) string {
	if fn.Pkg != nil {
		return fn.Pkg.Pkg.Path()
	}
	if o := fn.Object(); o != nil && o.Pkg() != nil {
		return o.Pkg().Path()
	}
	return ""
}

func (x *Exec) freshResults(st *State, sig *types.Signature, base string) Val {
	var vals []Val
	for i := 0; i < sig.Results().Len(); i++ {
		rt := sig.Results().At(i).Type()
		v := x.symbolic(base, rt)
		x.assume(st, x.typeInv(st, v, rt))
		vals = append(vals, v)
	}
	return x.tupleOrSingle(vals, sig)
}

func (x *Exec) errNonNil(st *State) Val {
	c := x.C
	tag := c.Int(int64(x.W.TypeTag(types.NewPointer(errorStringType()))))
	return VIface{tag, c.Fresh("errval", SInt)}
}

var errStrT types.Type

func errorStringType() types.Type {
	if errStrT == nil {
		errStrT = types.NewNamed(types.NewTypeName(0, nil, "errorString", nil), types.NewStruct(nil, nil), nil)
	}
	return errStrT
}

func (x *Exec) native(fr *Frame, st *State, fn *ssa.Function, args []Val, site string) (Val, bool) {
	c := x.C
	pp := pkgPathOf(fn)
	full := fn.String()
	switch {
	case pp == "k8s.io/klog/v2":
		// logging: no effect on modelled state
		return x.freshResults(st, fn.Signature, "klog"), true
	case full == "fmt.Errorf" || full == "errors.New":
		return x.errNonNil(st), true
	case full == "fmt.Sprintf" || full == "fmt.Sprint" || full == "fmt.Sprintln":
		r := c.Fresh("sprintf", SInt)
		x.assume(st, x.strLenFacts(r))
		return VInt{r}, true
	case full == "math.Float32bits" || full == "math.Float64bits" || full == "math.Float32frombits" || full == "math.Float64frombits":
		// A-FLOAT: floats are represented by their IEEE bit patterns; these are bit casts
		return args[0], true
	case full == "strings.Contains":
		if r, ok := x.strContains(args[0], args[1]); ok {
			return r, true
		}
		f := c.Fun("strcontains", []Sort{SInt, SInt}, SBool)
		// the predicate is decided on the string literals seen so far (a variable that ranges over a literal list)
		if sub, ok := x.litOf(args[1]); ok {
			for _, lit := range append([]string{}, x.strLitList...) {
				x.assumeGlobal(c.Eq(c.Apply(f, x.strLit(lit), args[1].(VInt).T), c.Bool(strings.Contains(lit, sub))))
			}
		}
		return VBool{c.Apply(f, args[0].(VInt).T, args[1].(VInt).T)}, true
	case full == "github.com/vmware/go-ipfix/pkg/util.Decode":
		return x.modelDecode(fr, st, args, site), true
	}
	return nil, false
}

func (x *Exec) litOf(v Val) (string, bool) {
	vi, ok := v.(VInt)
	if !ok || vi.T.ival == nil || !vi.T.ival.IsInt64() {
		return "", false
	}
	id := int(vi.T.ival.Int64())
	if id == 0 {
		return "", true
	}
	if id >= 1 && id <= len(x.strLitList) {
		return x.strLitList[id-1], true
	}
	return "", false
}

func (x *Exec) strContains(a, b Val) (Val, bool) {
	sa, ok1 := x.litOf(a)
	sb, ok2 := x.litOf(b)
	if ok1 && ok2 {
		return VBool{x.C.Bool(strings.Contains(sa, sb))}, true
	}
	return nil, false
}

var _ = sort.Strings

var wordRe = regexp.MustCompile(`[A-Za-z_$][A-Za-z0-9_$]*`)

// bindCalleeGivens binds every `given` parameter of the callee that the clause mentions to the calling unit's `given`
// parameter of the same name; false when one of them has no counterpart.
func (x *Exec) bindCalleeGivens(sp *FuncSpec, src string, env *SpecEnv) bool {
	if x.Spec == nil || len(x.Spec.Given) == 0 || x.givenVals == nil {
		return false
	}
	words := map[string]bool{}
	for _, w := range wordRe.FindAllString(src, -1) {
		words[w] = true
	}
	for _, g := range sp.Given {
		if !words[g] {
			continue
		}
		t, ok := x.givenVals[g]
		if !ok {
			return false
		}
		env.Vars[g] = SV{V: VInt{t}, T: types.Typ[types.Int]}
	}
	return true
}

func mentionsGiven(sp *FuncSpec, src string) bool {
	if len(sp.Given) == 0 {
		return false
	}
	for _, w := range wordRe.FindAllString(src, -1) {
		for _, g := range sp.Given {
			if w == g {
				return true
			}
		}
	}
	return false
}
