package govc

// Semantics of individual go/ssa instructions.

import (
	"fmt"
	"go/constant"
	"go/token"
	"go/types"
	"math/big"

	"golang.org/x/tools/go/ssa"
)

// val evaluates an SSA operand.
func (x *Exec) val(fr *Frame, v ssa.Value) Val {
	switch v := v.(type) {
	case *ssa.Const:
		return x.constVal(v)
	case *ssa.Function:
		return VFunc{Fn: v}
	case *ssa.Global:
		el := v.Type().(*types.Pointer).Elem()
		if structOf(el) != nil && !isOpaqueInt(el) {
			return VInt{x.globalAddr(globalName(v))}
		}
		return VPtr{Kind: PGlobal, Glob: globalName(v), Elem: el}
	case *ssa.Builtin:
		return VFunc{Fn: v}
	}
	if r, ok := fr.env[v]; ok {
		return r
	}
	panic(unsupported(fmt.Sprintf("value %s (%T) not defined on this path in %s", v.Name(), v, fr.fn)))
}

func globalName(g *ssa.Global) string {
	if g.Pkg != nil {
		return g.Pkg.Pkg.Path() + "." + g.Name()
	}
	return g.Name()
}

func (x *Exec) constVal(k *ssa.Const) Val {
	t := types.Unalias(k.Type())
	c := x.C
	if k.Value == nil {
		// zero value of the type (nil pointer / slice / interface / map, or zero struct)
		return x.zero(t)
	}
	switch u := t.Underlying().(type) {
	case *types.Basic:
		switch {
		case u.Info()&types.IsBoolean != 0:
			return VBool{c.Bool(constant.BoolVal(k.Value))}
		case u.Info()&types.IsString != 0:
			return VInt{x.strLit(constant.StringVal(k.Value))}
		case u.Info()&types.IsInteger != 0:
			bi, ok := constant.Val(constant.ToInt(k.Value)).(*big.Int)
			if !ok {
				i64, _ := constant.Int64Val(constant.ToInt(k.Value))
				bi = big.NewInt(i64)
			}
			return VInt{c.BigInt(bi)}
		case u.Info()&types.IsFloat != 0:
			// floats are bit patterns; only 0 has a known pattern
			f, _ := constant.Float64Val(k.Value)
			if f == 0 {
				return VInt{c.Int(0)}
			}
			return VInt{c.Const(fmt.Sprintf("fconst!%v!%s", f, u.Name()), SInt)}
		}
	}
	panic(unsupported("constant of type " + t.String()))
}

func (x *Exec) execInstr(fr *Frame, st *State, ins ssa.Instruction) {
	c := x.C
	switch t := ins.(type) {
	case *ssa.DebugRef:
		if id, ok := t.Expr.(interface{ String() string }); ok && !t.IsAddr {
			_ = id
		}
		if t.IsAddr {
			return
		}
		if obj := t.Object(); obj != nil {
			if _, isVar := obj.(*types.Var); isVar {
				if _, has := fr.env[t.X]; has || isConstOrGlobal(t.X) {
					fr.names[obj.Name()] = t.X
				}
			}
		}
	case *ssa.Alloc:
		fr.env[t] = x.execAlloc(fr, st, t)
	case *ssa.BinOp:
		fr.env[t] = x.binop(fr, st, t, t.Op, x.val(fr, t.X), x.val(fr, t.Y), t.X.Type(), t.Type())
	case *ssa.UnOp:
		fr.env[t] = x.unop(fr, st, t)
	case *ssa.Convert:
		fr.env[t] = x.convert(fr, st, x.val(fr, t.X), t.X.Type(), t.Type())
	case *ssa.ChangeType:
		fr.env[t] = x.val(fr, t.X)
	case *ssa.ChangeInterface:
		fr.env[t] = x.val(fr, t.X)
	case *ssa.MakeInterface:
		fr.env[t] = x.makeInterface(st, x.val(fr, t.X), t.X.Type())
	case *ssa.TypeAssert:
		fr.env[t] = x.typeAssert(fr, st, t)
	case *ssa.Extract:
		fr.env[t] = x.val(fr, t.Tuple).(VStruct).F[t.Index]
	case *ssa.Field:
		sv := x.val(fr, t.X).(VStruct)
		// map Go field index to modelled field position
		pos := -1
		for i, fi := range x.Sh.Fields(t.X.Type()) {
			if fi.Index == t.Field {
				pos = i
			}
		}
		if pos < 0 {
			panic(unsupported("Field on unmodelled field"))
		}
		fr.env[t] = sv.F[pos]
	case *ssa.FieldAddr:
		fr.env[t] = x.fieldAddr(fr, st, t)
	case *ssa.IndexAddr:
		fr.env[t] = x.indexAddr(fr, st, t)
	case *ssa.Index:
		fr.env[t] = x.index(fr, st, t)
	case *ssa.Slice:
		fr.env[t] = x.sliceOp(fr, st, t)
	case *ssa.Store:
		x.store(fr, st, x.val(fr, t.Addr), x.val(fr, t.Val), t)
	case *ssa.MakeSlice:
		n := x.val(fr, t.Len).(VInt).T
		cp := x.val(fr, t.Cap).(VInt).T
		x.oblige(st, "safe:make", "len", x.siteOf(fr, ins), "make: 0 <= len <= cap",
			c.And(c.Le(c.Int(0), n), c.Le(n, cp)))
		x.assume(st, c.Le(cp, c.Pow2(47))) // A-MEM: allocations fit in memory
		elem := t.Type().Underlying().(*types.Slice).Elem()
		arr := x.newArray(st, elem, true)
		fr.env[t] = VSlice{arr, c.Int(0), n, cp}
	case *ssa.MakeMap:
		fr.env[t] = VInt{x.newMap(st, t.Type().Underlying().(*types.Map))}
	case *ssa.MakeChan:
		fr.env[t] = VInt{x.allocAddr(st)}
	case *ssa.MakeClosure:
		var bs []Val
		for _, b := range t.Bindings {
			bs = append(bs, x.val(fr, b))
		}
		fr.env[t] = VFunc{Fn: t.Fn.(*ssa.Function), Bindings: bs}
	case *ssa.Lookup:
		fr.env[t] = x.lookup(fr, st, t)
	case *ssa.MapUpdate:
		x.mapUpdate(fr, st, t)
	case *ssa.Call:
		r := x.call(fr, st, t.Common(), t)
		if r != nil {
			fr.env[t] = r
		}
	case *ssa.Defer:
		fr.defers = append(fr.defers, deferred{call: t.Common(), guard: st.PC, instr: t})
	case *ssa.RunDefers:
		x.runDefers(fr, st)
	case *ssa.Go:
		x.note("go statement: goroutine body is not part of this unit's sequential semantics (" + fr.fn.String() + ")")
		// arguments are evaluated; nothing else happens in this unit
	case *ssa.Send:
		x.chanSend(fr, st, t)
	case *ssa.Range:
		fr.env[t] = x.rangeInit(fr, st, t)
	case *ssa.Next:
		fr.env[t] = x.rangeNext(fr, st, t)
	case *ssa.Select:
		fr.env[t] = x.selectOp(fr, st, t)
	default:
		panic(unsupported(fmt.Sprintf("instruction %T (%s)", ins, ins)))
	}
}

func isConstOrGlobal(v ssa.Value) bool {
	switch v.(type) {
	case *ssa.Const, *ssa.Global, *ssa.Function:
		return true
	}
	return false
}

// ---- Alloc ----

func (x *Exec) execAlloc(fr *Frame, st *State, a *ssa.Alloc) Val {
	T := a.Type().(*types.Pointer).Elem()
	if arr, ok := T.Underlying().(*types.Array); ok {
		id := x.newArray(st, arr.Elem(), true)
		return VPtr{Kind: PArray, Arr: id, N: arr.Len(), Elem: arr.Elem()}
	}
	if structOf(T) != nil && !isOpaqueInt(T) {
		return VInt{x.newStruct(st, T)}
	}
	// local cell
	key := x.siteOf(fr, a) + ":" + a.Comment
	st.Cells[key] = x.zero(T)
	x.noteWrite("cell:" + key)
	return VPtr{Kind: PCell, Glob: key, Elem: T}
}

// ---- pointers: load / store ----

func (x *Exec) load(fr *Frame, st *State, p Val, site string) Val {
	switch p := p.(type) {
	case VPtr:
		switch p.Kind {
		case PField:
			fi := x.fieldByIndex(p.Owner, p.Field)
			x.lockCheckObj(st, p.OwnS, fi.Name, p.Obj, false, site)
			return x.loadField(st, p.Owner, fi, p.Obj)
		case PCell:
			v, ok := st.Cells[p.Glob]
			if !ok {
				panic(unsupported("load of unknown cell " + p.Glob))
			}
			return v
		case PElem:
			return x.loadElem(st, p.Elem, p.Arr, p.Idx)
		case PGlobal:
			return x.loadGlobal(st, p)
		case PArray:
			panic(unsupported("load of whole array"))
		}
	case VInt:
		panic(unsupported("load through untyped struct pointer"))
	}
	panic(unsupported(fmt.Sprintf("load through %T", p)))
}

func (x *Exec) loadGlobal(st *State, p VPtr) Val {
	if s := structOf(p.Elem); s != nil && !isOpaqueInt(p.Elem) && len(x.Sh.Fields(p.Elem)) == 0 {
		return VStruct{}
	}
	ls := x.Sh.Leaves(p.Elem)
	ts := make([]*Term, len(ls))
	for i, l := range ls {
		arr := x.heapGet(st, compKeyGlobal(p.Glob, l.Suffix), ArrSort(SInt, l.Sort))
		ts[i] = x.C.Select(arr, x.C.Int(0))
	}
	v := x.Sh.Unflatten(p.Elem, ts)
	x.assumeLoaded(st, v, p.Elem)
	return v
}

func (x *Exec) storeGlobal(st *State, p VPtr, v Val) {
	ls := x.Sh.Leaves(p.Elem)
	ts := x.Sh.Flatten(v)
	for i, l := range ls {
		key := compKeyGlobal(p.Glob, l.Suffix)
		arr := x.heapGet(st, key, ArrSort(SInt, l.Sort))
		x.frameCheckGlobal(st, key)
		x.heapSet(st, key, x.C.Store(arr, x.C.Int(0), ts[i]))
	}
}

func (x *Exec) store(fr *Frame, st *State, addr Val, v Val, ins ssa.Instruction) {
	site := ""
	if ins != nil {
		site = x.siteOf(fr, ins)
	}
	switch p := addr.(type) {
	case VPtr:
		switch p.Kind {
		case PField:
			x.nilCheck(st, p.Obj, site, "store to field of nil")
			fi := x.fieldByIndex(p.Owner, p.Field)
			x.lockCheckObj(st, p.OwnS, fi.Name, p.Obj, true, site)
			x.storeField(st, p.Owner, fi, p.Obj, v)
		case PCell:
			st.Cells[p.Glob] = v
			x.noteWrite("cell:" + p.Glob)
		case PElem:
			x.storeElem(st, p.Elem, p.Arr, p.Idx, v)
		case PGlobal:
			x.storeGlobal(st, p, v)
		default:
			panic(unsupported("store through array pointer"))
		}
	case VInt:
		// *p = structValue
		if ins != nil {
			if s, ok := ins.(*ssa.Store); ok {
				T := s.Addr.Type().(*types.Pointer).Elem()
				if structOf(T) != nil {
					x.nilCheck(st, p.T, site, "store to nil struct pointer")
					x.storeStruct(st, T, p.T, v)
					return
				}
			}
		}
		panic(unsupported("store through integer pointer"))
	default:
		panic(unsupported(fmt.Sprintf("store through %T", addr)))
	}
}

func (x *Exec) nilCheck(st *State, p *Term, site, what string) {
	if x.dry || x.isFreshTerm(p) {
		return
	}
	// a pointer already checked on a prefix of this path need not be re-checked
	for _, pc := range x.nilChecked[p.id] {
		if pcImplies(st.PC, pc) {
			return
		}
	}
	if x.nilChecked == nil {
		x.nilChecked = map[int][]*Term{}
	}
	x.nilChecked[p.id] = append(x.nilChecked[p.id], st.PC)
	x.oblige(st, "safe:nil", "deref", site, what, x.C.Ne(p, x.C.Int(0)))
}

// pcImplies: syntactic check that path condition cur implies earlier.
func pcImplies(cur, earlier *Term) bool {
	if cur == earlier || isTrue(earlier) {
		return true
	}
	if cur.op != "and" {
		return false
	}
	has := map[int]bool{}
	for _, a := range cur.args {
		has[a.id] = true
	}
	if earlier.op == "and" {
		for _, a := range earlier.args {
			if !has[a.id] {
				return false
			}
		}
		return true
	}
	return has[earlier.id]
}

func (x *Exec) fieldAddr(fr *Frame, st *State, t *ssa.FieldAddr) Val {
	base := x.val(fr, t.X)
	bp, ok := base.(VInt)
	if !ok {
		panic(unsupported(fmt.Sprintf("FieldAddr on %T", base)))
	}
	T := t.X.Type().Underlying().(*types.Pointer).Elem()
	st0 := structOf(T)
	f := st0.Field(t.Field)
	x.nilCheck(st, bp.T, x.siteOf(fr, t), "field access through nil pointer: ."+f.Name())
	if structOf(f.Type()) != nil && !isOpaqueInt(f.Type()) {
		return VInt{bp.T} // nested by-value struct shares the address
	}
	n, _ := types.Unalias(T).(*types.Named)
	return VPtr{Kind: PField, Obj: bp.T, Owner: n, OwnS: ownerName(T), Field: t.Field, Elem: f.Type()}
}

func (x *Exec) indexAddr(fr *Frame, st *State, t *ssa.IndexAddr) Val {
	c := x.C
	base := x.val(fr, t.X)
	idx := x.val(fr, t.Index).(VInt).T
	site := x.siteOf(fr, t)
	switch b := base.(type) {
	case VSlice:
		elem := t.X.Type().Underlying().(*types.Slice).Elem()
		x.oblige(st, "safe:index", "index", site, "index in range", c.InRange(idx, c.Int(0), b.Len))
		return VPtr{Kind: PElem, Arr: b.Arr, Idx: x.slot(b.Off, idx), Elem: elem}
	case VPtr:
		if b.Kind == PArray {
			x.oblige(st, "safe:index", "index", site, "array index in range", c.InRange(idx, c.Int(0), c.Int(b.N)))
			return VPtr{Kind: PElem, Arr: b.Arr, Idx: idx, Elem: b.Elem}
		}
	}
	panic(unsupported(fmt.Sprintf("IndexAddr on %T", base)))
}

func (x *Exec) index(fr *Frame, st *State, t *ssa.Index) Val {
	c := x.C
	base := x.val(fr, t.X)
	idx := x.val(fr, t.Index).(VInt).T
	if b, ok := t.X.Type().Underlying().(*types.Basic); ok && b.Info()&types.IsString != 0 {
		s := base.(VInt).T
		x.oblige(st, "safe:index", "strindex", x.siteOf(fr, t), "string index in range", c.InRange(idx, c.Int(0), x.slen(s)))
		ch := x.sat(s, idx)
		x.assume(st, c.InRange(ch, c.Int(0), c.Int(256)))
		return VInt{ch}
	}
	panic(unsupported("Index on " + t.X.Type().String()))
}

func (x *Exec) sliceOp(fr *Frame, st *State, t *ssa.Slice) Val {
	c := x.C
	base := x.val(fr, t.X)
	site := x.siteOf(fr, t)
	var lo, hi, mx *Term
	if t.Low != nil {
		lo = x.val(fr, t.Low).(VInt).T
	}
	if t.High != nil {
		hi = x.val(fr, t.High).(VInt).T
	}
	if t.Max != nil {
		mx = x.val(fr, t.Max).(VInt).T
	}
	switch b := base.(type) {
	case VSlice:
		if lo == nil {
			lo = c.Int(0)
		}
		if hi == nil {
			hi = b.Len
		}
		capEnd := b.Cap
		if mx != nil {
			capEnd = mx
		}
		x.oblige(st, "safe:slice", "bounds", site, "0 <= lo <= hi <= max <= cap",
			c.And(c.Le(c.Int(0), lo), c.Le(lo, hi), c.Le(hi, capEnd), c.Le(capEnd, b.Cap)))
		return VSlice{b.Arr, c.Add(b.Off, lo), c.Sub(hi, lo), c.Sub(capEnd, lo)}
	case VPtr:
		if b.Kind == PArray {
			n := c.Int(b.N)
			if lo == nil {
				lo = c.Int(0)
			}
			if hi == nil {
				hi = n
			}
			x.oblige(st, "safe:slice", "bounds", site, "0 <= lo <= hi <= len(array)",
				c.And(c.Le(c.Int(0), lo), c.Le(lo, hi), c.Le(hi, n)))
			return VSlice{b.Arr, lo, c.Sub(hi, lo), c.Sub(n, lo)}
		}
	case VInt:
		// string slicing
		if bt, ok := t.X.Type().Underlying().(*types.Basic); ok && bt.Info()&types.IsString != 0 {
			s := b.T
			if lo == nil {
				lo = c.Int(0)
			}
			if hi == nil {
				hi = x.slen(s)
			}
			x.oblige(st, "safe:slice", "strbounds", site, "0 <= lo <= hi <= len(s)",
				c.And(c.Le(c.Int(0), lo), c.Le(lo, hi), c.Le(hi, x.slen(s))))
			r := c.Apply(c.Fun("substr", []Sort{SInt, SInt, SInt}, SInt), s, lo, hi)
			x.assume(st, c.And(c.Eq(x.slen(r), c.Sub(hi, lo)), x.strLenFacts(r)))
			return VInt{r}
		}
	}
	panic(unsupported(fmt.Sprintf("Slice on %T", base)))
}

// ---- operators ----

func basicOf(t types.Type) *types.Basic {
	b, _ := types.Unalias(t).Underlying().(*types.Basic)
	return b
}

func isUnsigned(t types.Type) bool {
	b := basicOf(t)
	return b != nil && b.Info()&types.IsUnsigned != 0
}

func bitsOf(t types.Type) uint {
	b := basicOf(t)
	if b == nil {
		return 64
	}
	switch b.Kind() {
	case types.Int8, types.Uint8:
		return 8
	case types.Int16, types.Uint16:
		return 16
	case types.Int32, types.Uint32, types.Float32:
		return 32
	}
	return 64
}

// wrap reduces a mathematical integer to the range of integer type t.
func (x *Exec) wrap(v *Term, t types.Type) *Term {
	c := x.C
	n := bitsOf(t)
	m := c.Mod(v, c.Pow2(n))
	if isUnsigned(t) {
		return m
	}
	return c.Ite(c.Lt(m, c.Pow2(n-1)), m, c.Sub(m, c.Pow2(n)))
}

func (x *Exec) binop(fr *Frame, st *State, ins ssa.Instruction, op token.Token, a, b Val, opT, resT types.Type) Val {
	c := x.C
	site := x.siteOf(fr, ins)
	switch op {
	case token.EQL, token.NEQ:
		eq := x.valEq(a, b, opT)
		if op == token.NEQ {
			eq = c.Not(eq)
		}
		return VBool{eq}
	case token.LAND:
		return VBool{c.And(a.(VBool).T, b.(VBool).T)}
	case token.LOR:
		return VBool{c.Or(a.(VBool).T, b.(VBool).T)}
	}
	if ba, ok := a.(VBool); ok {
		bb := b.(VBool)
		switch op {
		case token.AND:
			return VBool{c.And(ba.T, bb.T)}
		case token.OR:
			return VBool{c.Or(ba.T, bb.T)}
		}
	}
	ai, aok := a.(VInt)
	bi, bok := b.(VInt)
	if !aok || !bok {
		panic(unsupported(fmt.Sprintf("binop %s on %T,%T", op, a, b)))
	}
	bt := basicOf(opT)
	if bt != nil && bt.Info()&types.IsString != 0 {
		switch op {
		case token.ADD:
			r := c.Apply(c.Fun("sconcat", []Sort{SInt, SInt}, SInt), ai.T, bi.T)
			x.assume(st, c.And(c.Eq(x.slen(r), c.Add(x.slen(ai.T), x.slen(bi.T))), x.strLenFacts(r)))
			return VInt{r}
		case token.LSS, token.LEQ, token.GTR, token.GEQ:
			f := c.Fun("sless", []Sort{SInt, SInt}, SBool)
			switch op {
			case token.LSS:
				return VBool{c.Apply(f, ai.T, bi.T)}
			case token.GTR:
				return VBool{c.Apply(f, bi.T, ai.T)}
			case token.LEQ:
				return VBool{c.Not(c.Apply(f, bi.T, ai.T))}
			default:
				return VBool{c.Not(c.Apply(f, ai.T, bi.T))}
			}
		}
	}
	if bt != nil && bt.Info()&types.IsFloat != 0 {
		switch op {
		case token.LSS, token.LEQ, token.GTR, token.GEQ:
			x.note("float comparison abstracted as uninterpreted predicate")
			f := c.Fun("fcmp_"+op.String(), []Sort{SInt, SInt}, SBool)
			return VBool{c.Apply(f, ai.T, bi.T)}
		default:
			x.note("float arithmetic abstracted as uninterpreted function")
			f := c.Fun("fop_"+sanitize(op.String()), []Sort{SInt, SInt}, SInt)
			r := c.Apply(f, ai.T, bi.T)
			x.assume(st, c.InRange(r, c.Int(0), c.Pow2(bitsOf(opT))))
			return VInt{r}
		}
	}
	switch op {
	case token.LSS:
		return VBool{c.Lt(ai.T, bi.T)}
	case token.LEQ:
		return VBool{c.Le(ai.T, bi.T)}
	case token.GTR:
		return VBool{c.Gt(ai.T, bi.T)}
	case token.GEQ:
		return VBool{c.Ge(ai.T, bi.T)}
	}
	unsignedOp := isUnsigned(opT)
	arith := func(r *Term) Val {
		if unsignedOp {
			return VInt{c.Mod(r, c.Pow2(bitsOf(opT)))}
		}
		// signed: overflow obligation, mathematical result
		lo, hi, ok := intRange(bt)
		if ok && !x.noOverflow {
			x.oblige(st, "arith:ovf", op.String(), site, "signed arithmetic stays in range",
				c.InRange(r, c.BigInt(lo), c.BigInt(hi)))
		}
		return VInt{r}
	}
	// 64-bit unsigned add/sub of in-range operands wrap at most once: a conditional is easier on the solvers than mod 2^64
	if unsignedOp && bitsOf(opT) == 64 {
		m := c.Pow2(64)
		switch op {
		case token.ADD:
			r := c.Add(ai.T, bi.T)
			return VInt{c.Ite(c.Ge(r, m), c.Sub(r, m), r)}
		case token.SUB:
			r := c.Sub(ai.T, bi.T)
			return VInt{c.Ite(c.Lt(r, c.Int(0)), c.Add(r, m), r)}
		}
	}
	switch op {
	case token.ADD:
		return arith(c.Add(ai.T, bi.T))
	case token.SUB:
		return arith(c.Sub(ai.T, bi.T))
	case token.MUL:
		return arith(c.Mul(ai.T, bi.T))
	case token.QUO, token.REM:
		x.oblige(st, "safe:div", "nonzero", site, "divisor is not zero", c.Ne(bi.T, c.Int(0)))
		if unsignedOp {
			if op == token.QUO {
				return VInt{c.Div(ai.T, bi.T)}
			}
			return VInt{c.Mod(ai.T, bi.T)}
		}
		// Go truncated division for signed
		q := x.truncDiv(ai.T, bi.T)
		if op == token.QUO {
			return VInt{q}
		}
		return VInt{c.Sub(ai.T, c.Mul(q, bi.T))}
	case token.SHL, token.SHR:
		if bi.T.ival != nil && bi.T.ival.IsInt64() {
			k := uint(bi.T.ival.Int64())
			if op == token.SHL {
				r := c.Mul(ai.T, c.Pow2(k))
				if unsignedOp {
					return VInt{c.Mod(r, c.Pow2(bitsOf(opT)))}
				}
				return VInt{x.wrap(r, opT)}
			}
			return VInt{x.shiftRight(ai.T, k)}
		}
	case token.AND, token.OR, token.XOR, token.AND_NOT:
		if r := x.bitop(op, ai.T, bi.T, opT); r != nil {
			return VInt{r}
		}
	}
	x.note(fmt.Sprintf("operator %s on non-constant operands abstracted (result unconstrained within type range) at %s", op, site))
	r := x.symbolic("opaque!"+sanitize(op.String()), resT)
	x.assume(st, x.typeInv(st, r, resT))
	return r
}

func (x *Exec) truncDiv(a, b *Term) *Term {
	c := x.C
	// trunc(a/b) = sign * (|a| div |b|)
	abs := func(t *Term) *Term { return c.Ite(c.Lt(t, c.Int(0)), c.Neg(t), t) }
	q := c.Div(abs(a), abs(b))
	neg := c.Ne(c.Lt(a, c.Int(0)), c.Lt(b, c.Int(0)))
	return c.Ite(neg, c.Neg(q), q)
}

// shiftRight by a constant: multiples of 8 as iterated div 256 (DESIGN §3.3).
func (x *Exec) shiftRight(a *Term, k uint) *Term {
	c := x.C
	r := a
	for k >= 8 {
		r = c.Div(r, c.Int(256))
		k -= 8
	}
	if k > 0 {
		r = c.Div(r, c.Pow2(k))
	}
	return r
}

// bitop handles masks with a constant operand of the form 2^k-1 (AND),
// single-bit constants (AND / OR / XOR / AND_NOT).
func (x *Exec) bitop(op token.Token, a, b *Term, t types.Type) *Term {
	c := x.C
	if a.ival != nil && b.ival == nil {
		if op == token.AND_NOT {
			return nil
		}
		a, b = b, a
	}
	if b.ival == nil || b.ival.Sign() < 0 {
		return nil
	}
	m := b.ival
	one := big.NewInt(1)
	// all-ones mask 2^k-1
	if new(big.Int).And(m, new(big.Int).Add(m, one)).Sign() == 0 {
		k := uint(m.BitLen())
		switch op {
		case token.AND:
			return c.Mod(a, c.Pow2(k))
		case token.AND_NOT:
			return c.Sub(a, c.Mod(a, c.Pow2(k)))
		}
	}
	// single bit 2^k
	if m.Sign() > 0 && new(big.Int).And(m, new(big.Int).Sub(m, one)).Sign() == 0 {
		k := uint(m.BitLen() - 1)
		bit := c.Mod(c.Div(a, c.Pow2(k)), c.Int(2))
		set := c.Eq(bit, c.Int(1))
		mt := c.BigInt(m)
		switch op {
		case token.AND:
			return c.Ite(set, mt, c.Int(0))
		case token.OR:
			return c.Ite(set, a, c.Add(a, mt))
		case token.XOR:
			return c.Ite(set, c.Sub(a, mt), c.Add(a, mt))
		case token.AND_NOT:
			return c.Ite(set, c.Sub(a, mt), a)
		}
	}
	if m.Sign() == 0 {
		switch op {
		case token.AND:
			return c.Int(0)
		case token.OR, token.XOR, token.AND_NOT:
			return a
		}
	}
	return nil
}

// valEq: Go == on values of static type t.
func (x *Exec) valEq(a, b Val, t types.Type) *Term {
	c := x.C
	switch av := a.(type) {
	case VInt:
		if bv, ok := b.(VInt); ok {
			if bt := basicOf(t); bt != nil && bt.Info()&types.IsFloat != 0 {
				// float equality: identical bits imply equal except NaN; abstract
				x.note("float == abstracted as uninterpreted predicate")
				return c.Apply(c.Fun("feq", []Sort{SInt, SInt}, SBool), av.T, bv.T)
			}
			return c.Eq(av.T, bv.T)
		}
	case VBool:
		return c.Eq(av.T, b.(VBool).T)
	case VIface:
		bv := b.(VIface)
		// comparing with nil: tag test; otherwise identity of tag and payload
		return c.And(c.Eq(av.Tag, bv.Tag), c.Eq(av.Val, bv.Val))
	case VSlice:
		// only slice == nil is legal Go
		bv := b.(VSlice)
		if bv.Arr.ival != nil && bv.Arr.ival.Sign() == 0 {
			return c.Eq(av.Arr, c.Int(0))
		}
		if av.Arr.ival != nil && av.Arr.ival.Sign() == 0 {
			return c.Eq(bv.Arr, c.Int(0))
		}
	case VStruct:
		bv := b.(VStruct)
		var conj []*Term
		fields := x.Sh.Fields(t)
		for i := range av.F {
			var ft types.Type
			if i < len(fields) {
				ft = fields[i].Type
			}
			conj = append(conj, x.valEq(av.F[i], bv.F[i], ft))
		}
		return c.And(conj...)
	case VPtr:
		if bv, ok := b.(VPtr); ok && ptrSameShape(av, bv) {
			var conj []*Term
			if av.Obj != nil {
				conj = append(conj, c.Eq(av.Obj, bv.Obj))
			}
			if av.Arr != nil {
				conj = append(conj, c.Eq(av.Arr, bv.Arr))
			}
			if av.Idx != nil {
				conj = append(conj, c.Eq(av.Idx, bv.Idx))
			}
			return c.And(conj...)
		}
		if bi, ok := b.(VInt); ok && bi.T.ival != nil && bi.T.ival.Sign() == 0 {
			return c.False() // descriptor pointers are never nil
		}
	case VFunc:
		if bi, ok := b.(VInt); ok && bi.T.ival != nil && bi.T.ival.Sign() == 0 {
			return c.False()
		}
	}
	if ai, ok := a.(VInt); ok {
		if _, ok := b.(VFunc); ok && ai.T.ival != nil && ai.T.ival.Sign() == 0 {
			return c.False()
		}
		if _, ok := b.(VPtr); ok && ai.T.ival != nil && ai.T.ival.Sign() == 0 {
			return c.False()
		}
	}
	panic(unsupported(fmt.Sprintf("== on %T and %T", a, b)))
}

func (x *Exec) unop(fr *Frame, st *State, t *ssa.UnOp) Val {
	c := x.C
	v := x.val(fr, t.X)
	switch t.Op {
	case token.MUL: // load
		site := x.siteOf(fr, t)
		if vi, ok := v.(VInt); ok {
			T := t.X.Type().Underlying().(*types.Pointer).Elem()
			if structOf(T) != nil && !isOpaqueInt(T) {
				x.nilCheck(st, vi.T, site, "dereference of nil struct pointer")
				return x.loadStruct(st, T, vi.T)
			}
		}
		if p, ok := v.(VPtr); ok && p.Kind == PField {
			x.nilCheck(st, p.Obj, site, "load from field of nil")
		}
		return x.load(fr, st, v, site)
	case token.NOT:
		return VBool{c.Not(v.(VBool).T)}
	case token.SUB:
		vi := v.(VInt)
		if isUnsigned(t.Type()) {
			return VInt{c.Mod(c.Neg(vi.T), c.Pow2(bitsOf(t.Type())))}
		}
		return VInt{c.Neg(vi.T)}
	case token.XOR:
		vi := v.(VInt)
		if isUnsigned(t.Type()) {
			return VInt{c.Sub(c.Sub(c.Pow2(bitsOf(t.Type())), c.Int(1)), vi.T)}
		}
		return VInt{c.Sub(c.Neg(vi.T), c.Int(1))}
	case token.ARROW:
		return x.chanRecv(fr, st, t, v)
	}
	panic(unsupported("unary " + t.Op.String()))
}

func (x *Exec) convert(fr *Frame, st *State, v Val, from, to types.Type) Val {
	c := x.C
	from, to = types.Unalias(from), types.Unalias(to)
	fb, tb := basicOf(from), basicOf(to)
	switch {
	case fb != nil && tb != nil && fb.Info()&types.IsInteger != 0 && tb.Info()&types.IsInteger != 0:
		vi := v.(VInt)
		// value-preserving when the target range contains the source range
		flo, fhi, _ := intRange(fb)
		tlo, thi, _ := intRange(tb)
		if flo != nil && tlo != nil && tlo.Cmp(flo) <= 0 && thi.Cmp(fhi) >= 0 {
			return vi
		}
		return VInt{x.wrap(vi.T, to)}
	case fb != nil && tb != nil && fb.Info()&types.IsString != 0 && tb.Info()&types.IsString != 0:
		return v
	case tb != nil && tb.Info()&types.IsString != 0:
		// string(bytes)
		if sl, ok := v.(VSlice); ok {
			elem := from.Underlying().(*types.Slice).Elem()
			s := c.Fresh("str!frombytes", SInt)
			x.assume(st, c.And(c.Eq(x.slen(s), sl.Len), x.strLenFacts(s)))
			i := c.NewBound("i", SInt)
			_, comp := x.elemsComp(st, elem, x.Sh.Leaves(elem)[0])
			body := c.Implies(c.InRange(i, c.Int(0), sl.Len),
				c.Eq(x.sat(s, i), c.Select(c.Select(comp, sl.Arr), c.Add(sl.Off, i))))
			x.assume(st, c.Forall([]*Term{i}, body, []*Term{x.sat(s, i)}))
			return VInt{s}
		}
		if fb != nil && fb.Info()&types.IsInteger != 0 {
			x.note("string(rune) conversion abstracted")
			r := c.Fresh("str!fromrune", SInt)
			x.assume(st, x.strLenFacts(r))
			return VInt{r}
		}
	case fb != nil && fb.Info()&types.IsString != 0:
		// []byte(s)
		if sl, ok := to.Underlying().(*types.Slice); ok {
			s := v.(VInt).T
			arr := x.newArray(st, sl.Elem(), false)
			n := x.slen(s)
			key, comp := x.elemsComp(st, sl.Elem(), x.Sh.Leaves(sl.Elem())[0])
			fresh := c.Fresh("arr!fromstr", ArrSort(SInt, SInt))
			i := c.NewBound("i", SInt)
			sel := c.Select(fresh, i)
			x.assume(st, c.Forall([]*Term{i}, c.Implies(c.InRange(i, c.Int(0), n),
				c.And(c.Eq(sel, x.sat(s, i)), c.InRange(sel, c.Int(0), c.Int(256)))), []*Term{sel}))
			x.heapSet(st, key, c.Store(comp, arr, fresh))
			// []byte("") is non-nil but empty
			return VSlice{arr, c.Int(0), n, n}
		}
	case fb != nil && tb != nil && (fb.Info()&types.IsFloat != 0 || tb.Info()&types.IsFloat != 0):
		if fb.Kind() == tb.Kind() {
			return v
		}
		x.note("numeric conversion involving float abstracted as uninterpreted function")
		f := c.Fun("fconv_"+fb.Name()+"_"+tb.Name(), []Sort{SInt}, SInt)
		r := VInt{c.Apply(f, v.(VInt).T)}
		x.assume(st, x.typeInv(st, r, to))
		return r
	}
	// slice <-> named slice, pointer conversions etc.
	if _, ok := from.Underlying().(*types.Slice); ok {
		if _, ok2 := to.Underlying().(*types.Slice); ok2 {
			return v
		}
	}
	if _, ok := from.Underlying().(*types.Pointer); ok {
		return v
	}
	panic(unsupported(fmt.Sprintf("convert %s -> %s", from, to)))
}

// ---- interfaces ----

// payload encoding: pointer types carry the address; integer-like scalars the
// value itself; everything else is boxed through an injective uninterpreted
// function per type.
func (x *Exec) makeInterface(st *State, v Val, t types.Type) Val {
	c := x.C
	tag := c.Int(int64(x.W.TypeTag(t)))
	switch vv := v.(type) {
	case VInt:
		return VIface{tag, vv.T}
	case VBool:
		return VIface{tag, c.Ite(vv.T, c.Int(1), c.Int(0))}
	case VPtr:
		// a descriptor pointer boxed into an interface (util.Decode outputs, heap.Interface receivers)
		id := x.boxPtr(vv)
		return VIface{tag, id}
	default:
		ts := x.Sh.Flatten(v)
		srt := make([]Sort, len(ts))
		for i, tt := range ts {
			srt[i] = tt.sort
		}
		f := c.Fun("box!"+typeName(t), srt, SInt)
		b := c.Apply(f, ts...)
		// unboxing functions
		for i := range ts {
			u := c.Fun(fmt.Sprintf("unbox%d!%s", i, typeName(t)), []Sort{SInt}, srt[i])
			x.assume(st, c.Eq(c.Apply(u, b), ts[i]))
		}
		return VIface{tag, b}
	}
}

func (x *Exec) boxPtr(p VPtr) *Term {
	id := len(x.boxed) + 1
	x.boxed = append(x.boxed, p)
	return x.C.Int(int64(-id)) // negative ids never collide with addresses
}

func (x *Exec) unboxPtr(t *Term) (VPtr, bool) {
	if t.ival != nil && t.ival.Sign() < 0 && t.ival.IsInt64() {
		id := int(-t.ival.Int64())
		if id >= 1 && id <= len(x.boxed) {
			return x.boxed[id-1], true
		}
	}
	return VPtr{}, false
}

func (x *Exec) unboxVal(st *State, payload *Term, t types.Type) Val {
	c := x.C
	t = types.Unalias(t)
	ls := x.Sh.Leaves(t)
	if len(ls) == 1 {
		if ls[0].Sort == SBool {
			return VBool{c.Eq(payload, c.Int(1))}
		}
		return VInt{payload}
	}
	ts := make([]*Term, len(ls))
	for i, l := range ls {
		u := c.Fun(fmt.Sprintf("unbox%d!%s", i, typeName(t)), []Sort{SInt}, l.Sort)
		ts[i] = c.Apply(u, payload)
	}
	v := x.Sh.Unflatten(t, ts)
	x.assume(st, x.typeInv(st, v, t))
	return v
}

func (x *Exec) typeAssert(fr *Frame, st *State, t *ssa.TypeAssert) Val {
	c := x.C
	iv := x.val(fr, t.X).(VIface)
	site := x.siteOf(fr, t)
	at := t.AssertedType
	if types.IsInterface(at) {
		// interface-to-interface: holds iff dynamic type implements; closed world
		var alts []*Term
		for _, im := range x.W.Implementers(at.Underlying().(*types.Interface)) {
			alts = append(alts, c.Eq(iv.Tag, c.Int(int64(x.W.TypeTag(im)))))
		}
		ok := c.Or(alts...)
		if len(alts) == 0 {
			x.note("type assertion to interface " + at.String() + " with no closed-world implementers: result unconstrained")
			ok = c.Fresh("assertok", SBool)
		}
		if t.CommaOk {
			res := x.iteVal(ok, iv, x.zero(at))
			return VStruct{[]Val{res, VBool{ok}}}
		}
		x.oblige(st, "safe:assert", "typeassert", site, "type assertion succeeds", ok)
		return iv
	}
	tag := c.Int(int64(x.W.TypeTag(at)))
	ok := c.Eq(iv.Tag, tag)
	var res Val
	if bp, isBoxed := x.unboxPtr(iv.Val); isBoxed {
		res = bp
	} else {
		res = x.unboxVal(st, iv.Val, at)
	}
	if t.CommaOk {
		if _, isPtr := res.(VPtr); !isPtr {
			res = x.iteVal(ok, res, x.zero(at))
		}
		return VStruct{[]Val{res, VBool{ok}}}
	}
	x.oblige(st, "safe:assert", "typeassert", site, "type assertion succeeds: "+at.String(), ok)
	return res
}
