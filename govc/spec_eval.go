package govc

// Contract language: evaluation of spec expressions to SMT terms over a symbolic state.

import (
	"fmt"
	"go/types"
	"math/big"
	"os"
	"runtime/debug"
	"strings"

	"golang.org/x/tools/go/ssa"
)

// SV is a typed spec value.
type SV struct {
	V Val
	T types.Type // may be nil for untyped int / bool
}

type SpecEnv struct {
	X     *Exec
	Vars  map[string]SV
	Cur   *State
	Old   *State
	Pkg   *ssa.Package
	Lets  map[string]Expr
	Frame *Frame
	Prev  *SpecEnv // loop step clauses: the environment at the head of the iteration
	Entry *SpecEnv // loop clauses: the environment in which the loop was entered
	depth int
}

func (e *SpecEnv) child() *SpecEnv {
	n := *e
	n.Vars = make(map[string]SV, len(e.Vars)+2)
	for k, v := range e.Vars {
		n.Vars[k] = v
	}
	return &n
}

type specError struct{ msg string }

func (s specError) Error() string { return "spec: " + s.msg }

func specFail(format string, a ...interface{}) {
	if os.Getenv("GOVC_SPECTRACE") != "" {
		debug.PrintStack()
	}
	panic(specError{fmt.Sprintf(format, a...)})
}

func (x *Exec) evalBool(e Expr, env *SpecEnv) *Term { return env.evalBool(e) }
func (x *Exec) evalInt(e Expr, env *SpecEnv) *Term  { return env.evalInt(e) }

func (env *SpecEnv) evalBool(e Expr) *Term {
	sv := env.eval(e)
	switch v := sv.V.(type) {
	case VBool:
		return v.T
	}
	specFail("expected boolean, got %T in %v", sv.V, e)
	return nil
}

func (env *SpecEnv) evalInt(e Expr) *Term {
	sv := env.eval(e)
	switch v := sv.V.(type) {
	case VInt:
		return v.T
	}
	specFail("expected integer, got %T in %v", sv.V, e)
	return nil
}

var tInt = types.Typ[types.Int]
var tBool = types.Typ[types.Bool]

func (env *SpecEnv) eval(e Expr) SV {
	x := env.X
	c := x.C
	switch e := e.(type) {
	case EInt:
		return SV{VInt{c.BigInt(e.V)}, nil}
	case EBoolLit:
		return SV{VBool{c.Bool(e.V)}, tBool}
	case EStr:
		return SV{VInt{x.strLit(e.S)}, types.Typ[types.String]}
	case ENil:
		return SV{nil, nil}
	case EIdent:
		if v, ok := env.Vars[e.Name]; ok {
			return v
		}
		if le, ok := env.Lets[e.Name]; ok {
			if env.depth > 40 {
				specFail("let recursion on %s", e.Name)
			}
			sub := *env
			sub.depth++
			return sub.eval(le)
		}
		if strings.HasPrefix(e.Name, "$") {
			if gt, ok := x.W.Specs.GhostGlobals[strings.TrimPrefix(e.Name, "$")]; ok {
				T := env.resolveParamType(gt)
				p := VPtr{Kind: PGlobal, Glob: "ghost." + strings.TrimPrefix(e.Name, "$"), Elem: T}
				return SV{x.loadGlobalSpec(env.Cur, p), T}
			}
		}
		if sv, ok := env.lookupGlobal(e.Name); ok {
			return sv
		}
		if os.Getenv("GOVC_SPECTRACE") != "" {
			var ks []string
			for k := range env.Vars {
				ks = append(ks, k)
			}
			fmt.Println("  names in scope:", ks)
		}
		specFail("unknown name %q", e.Name)
	case EOld:
		sub := *env
		sub.Cur = env.Old
		return sub.eval(e.X)
	case EEntry:
		if env.Entry == nil {
			specFail("entry() is only meaningful in a loop invariant or step clause")
		}
		return env.Entry.eval(e.X)
	case EPrev:
		if env.Prev == nil {
			specFail("prev() is only meaningful in a loop step clause")
		}
		return env.Prev.eval(e.X)
	case EUn:
		switch e.Op {
		case "!":
			return SV{VBool{c.Not(env.evalBool(e.X))}, tBool}
		case "-":
			return SV{VInt{c.Neg(env.evalInt(e.X))}, nil}
		case "*":
			sv := env.eval(e.X)
			if p, ok := sv.V.(VPtr); ok {
				v := env.loadPtr(p)
				return SV{v, p.Elem}
			}
			if T, addr := x.structPtrOf(sv); T != nil {
				return SV{x.loadStructSpec(env.Cur, T, addr), T}
			}
			specFail("cannot dereference %T", sv.V)
		}
	case EBin:
		return env.evalBin(e)
	case ECond:
		cnd := env.evalBool(e.C)
		a := env.eval(e.A)
		b := env.eval(e.B)
		a, b = env.unifyNil(a, b)
		t := a.T
		if t == nil {
			t = b.T
		}
		return SV{x.iteVal(cnd, a.V, b.V), t}
	case EQuant:
		return env.evalQuant(e)
	case ESum:
		return env.evalSum(e)
	case ESel:
		return env.evalSel(e)
	case EIndex:
		return env.evalIndex(e)
	case ESlice:
		base := env.eval(e.X)
		sl, ok := base.V.(VSlice)
		if !ok {
			specFail("slicing a non-slice in spec")
		}
		lo := c.Int(0)
		hi := sl.Len
		if e.Lo != nil {
			lo = env.evalInt(e.Lo)
		}
		if e.Hi != nil {
			hi = env.evalInt(e.Hi)
		}
		return SV{VSlice{sl.Arr, c.Add(sl.Off, lo), c.Sub(hi, lo), c.Sub(sl.Cap, lo)}, base.T}
	case ECast:
		base := env.eval(e.X)
		T := env.resolveType(e.Type)
		switch b := base.V.(type) {
		case VIface:
			if pt, isPtr := typeUnder(T).(*types.Pointer); isPtr {
				if bp, ok := x.unboxPtr(b.Val); ok {
					_ = pt
					return SV{bp, T} // a descriptor pointer boxed into the interface (e.g. &a.expirePriorityQueue)
				}
				return SV{VInt{b.Val}, T}
			}
			return SV{x.unboxValSpec(b.Val, T), T}
		case VInt:
			return SV{b, T}
		}
		specFail("cast of %T", base.V)
	case ECall:
		return env.evalCall(e)
	case ETypeLit:
		T := env.resolveType(e.Type)
		return SV{VInt{c.Int(int64(x.W.TypeTag(T)))}, nil}
	}
	specFail("cannot evaluate %T", e)
	return SV{}
}

func (env *SpecEnv) loadPtr(p VPtr) Val {
	x := env.X
	st := env.Cur
	switch p.Kind {
	case PField:
		return x.loadFieldSpec(st, p.Owner, x.fieldByIndex(p.Owner, p.Field), p.Obj)
	case PCell:
		v, ok := st.Cells[p.Glob]
		if !ok {
			specFail("cell %s not live in this state", p.Glob)
		}
		return v
	case PElem:
		return x.loadElemSpec(st, p.Elem, p.Arr, p.Idx)
	case PGlobal:
		return x.loadGlobalSpec(st, p)
	}
	specFail("cannot load through pointer kind %d", p.Kind)
	return nil
}

// spec loads do not add assumptions (they may occur under quantifiers).
func (x *Exec) loadFieldSpec(st *State, T types.Type, fi FieldInfo, p *Term) Val {
	if s := structOf(fi.Type); s != nil && !isOpaqueInt(fi.Type) {
		return x.loadStructSpec(st, fi.Type, p)
	}
	ls := x.Sh.Leaves(fi.Type)
	ts := make([]*Term, len(ls))
	for i, l := range ls {
		x.noteLeaf(compKeyField(ownerName(T), fi.Name, l.Suffix), l)
		arr := x.heapGet(st, compKeyField(ownerName(T), fi.Name, l.Suffix), ArrSort(SInt, l.Sort))
		ts[i] = x.C.Select(arr, p)
	}
	return x.Sh.Unflatten(fi.Type, ts)
}

func (x *Exec) loadStructSpec(st *State, T types.Type, p *Term) Val {
	var fs []Val
	for _, fi := range x.Sh.Fields(T) {
		fs = append(fs, x.loadFieldSpec(st, T, fi, p))
	}
	return VStruct{fs}
}

func (x *Exec) loadElemSpec(st *State, elem types.Type, arr, idx *Term) Val {
	ls := x.Sh.Leaves(elem)
	ts := make([]*Term, len(ls))
	for i, l := range ls {
		_, comp := x.elemsComp(st, elem, l)
		ts[i] = x.C.Select(x.C.Select(comp, arr), idx)
	}
	return x.Sh.Unflatten(elem, ts)
}

func (x *Exec) loadGlobalSpec(st *State, p VPtr) Val {
	ls := x.Sh.Leaves(p.Elem)
	ts := make([]*Term, len(ls))
	for i, l := range ls {
		arr := x.heapGet(st, compKeyGlobal(p.Glob, l.Suffix), ArrSort(SInt, l.Sort))
		ts[i] = x.C.Select(arr, x.C.Int(0))
	}
	return x.Sh.Unflatten(p.Elem, ts)
}

func (x *Exec) unboxValSpec(payload *Term, t types.Type) Val {
	c := x.C
	ls := x.Sh.Leaves(t)
	if len(ls) == 1 {
		if ls[0].Sort == SBool {
			return VBool{c.Eq(payload, c.Int(1))}
		}
		return VInt{payload}
	}
	ts := make([]*Term, len(ls))
	for i, l := range ls {
		u := c.Fun(fmt.Sprintf("unbox%d!%s", i, typeName(t)), []Sort{SInt}, l.Sort)
		ts[i] = c.Apply(u, payload)
	}
	return x.Sh.Unflatten(t, ts)
}

// unifyNil gives `nil` the shape of the other operand.
func (env *SpecEnv) unifyNil(a, b SV) (SV, SV) {
	if a.V == nil && b.V != nil {
		a = SV{env.X.zeroLike(b), b.T}
	}
	if b.V == nil && a.V != nil {
		b = SV{env.X.zeroLike(a), a.T}
	}
	return a, b
}

func (x *Exec) zeroLike(sv SV) Val {
	if sv.T != nil {
		if _, isPtr := sv.V.(VPtr); !isPtr {
			return x.zero(sv.T)
		}
	}
	switch v := sv.V.(type) {
	case VInt:
		return VInt{x.C.Int(0)}
	case VBool:
		return VBool{x.C.False()}
	case VSlice:
		z := x.C.Int(0)
		return VSlice{z, z, z, z}
	case VIface:
		return VIface{x.C.Int(0), x.C.Int(0)}
	case VStruct:
		fs := make([]Val, len(v.F))
		for i, f := range v.F {
			fs[i] = x.zeroLike(SV{f, nil})
		}
		return VStruct{fs}
	}
	specFail("nil compared with %T", sv.V)
	return nil
}

func (env *SpecEnv) evalBin(e EBin) SV {
	x := env.X
	c := x.C
	switch e.Op {
	case "&&":
		return SV{VBool{c.And(env.evalBool(e.L), env.evalBool(e.R))}, tBool}
	case "||":
		return SV{VBool{c.Or(env.evalBool(e.L), env.evalBool(e.R))}, tBool}
	case "==>":
		return SV{VBool{c.Implies(env.evalBool(e.L), env.evalBool(e.R))}, tBool}
	case "<==>":
		return SV{VBool{c.Eq(env.evalBool(e.L), env.evalBool(e.R))}, tBool}
	case "==", "!=":
		a := env.eval(e.L)
		b := env.eval(e.R)
		a, b = env.unifyNil(a, b)
		var eq *Term
		if a.V == nil && b.V == nil {
			eq = c.True()
		} else {
			eq = env.specEq(a, b)
		}
		if e.Op == "!=" {
			eq = c.Not(eq)
		}
		return SV{VBool{eq}, tBool}
	}
	a := env.evalInt(e.L)
	b := env.evalInt(e.R)
	switch e.Op {
	case "<":
		return SV{VBool{c.Lt(a, b)}, tBool}
	case "<=":
		return SV{VBool{c.Le(a, b)}, tBool}
	case ">":
		return SV{VBool{c.Gt(a, b)}, tBool}
	case ">=":
		return SV{VBool{c.Ge(a, b)}, tBool}
	case "+":
		return SV{VInt{c.Add(a, b)}, nil}
	case "-":
		return SV{VInt{c.Sub(a, b)}, nil}
	case "*":
		return SV{VInt{c.Mul(a, b)}, nil}
	case "/":
		return SV{VInt{c.Div(a, b)}, nil} // mathematical (floor) division; spec authors use it on non-negatives
	case "%":
		return SV{VInt{c.Mod(a, b)}, nil}
	}
	specFail("operator %s", e.Op)
	return SV{}
}

func (env *SpecEnv) specEq(a, b SV) *Term {
	x := env.X
	c := x.C
	switch av := a.V.(type) {
	case VInt:
		if bv, ok := b.V.(VInt); ok {
			return c.Eq(av.T, bv.T)
		}
	case VBool:
		if bv, ok := b.V.(VBool); ok {
			return c.Eq(av.T, bv.T)
		}
	case VIface:
		if bv, ok := b.V.(VIface); ok {
			return c.And(c.Eq(av.Tag, bv.Tag), c.Eq(av.Val, bv.Val))
		}
	case VSlice:
		if bv, ok := b.V.(VSlice); ok {
			// nil test or header identity
			if bv.Arr.ival != nil && bv.Arr.ival.Sign() == 0 && bv.Len.ival != nil {
				return c.Eq(av.Arr, c.Int(0))
			}
			if av.Arr.ival != nil && av.Arr.ival.Sign() == 0 && av.Len.ival != nil {
				return c.Eq(bv.Arr, c.Int(0))
			}
			return c.And(c.Eq(av.Arr, bv.Arr), c.Eq(av.Off, bv.Off), c.Eq(av.Len, bv.Len))
		}
	case VStruct:
		if bv, ok := b.V.(VStruct); ok && len(av.F) == len(bv.F) {
			var conj []*Term
			for i := range av.F {
				conj = append(conj, env.specEq(SV{av.F[i], nil}, SV{bv.F[i], nil}))
			}
			return c.And(conj...)
		}
	case VPtr:
		if bv, ok := b.V.(VPtr); ok && ptrSameShape(av, bv) {
			return x.valEq(av, bv, nil)
		}
	}
	specFail("== on %T and %T", a.V, b.V)
	return nil
}

func (env *SpecEnv) evalQuant(e EQuant) SV {
	x := env.X
	c := x.C
	sub := env.child()
	var bvs []*Term
	var rng []*Term
	var lo, hi *Term
	if e.Lo != nil {
		lo = env.evalInt(e.Lo)
		hi = env.evalInt(e.Hi)
	}
	for _, v := range e.Vars {
		bv := c.NewBound(v, SInt)
		bvs = append(bvs, bv)
		sub.Vars[v] = SV{VInt{bv}, tInt}
		if lo != nil {
			rng = append(rng, c.InRange(bv, lo, hi))
		}
	}
	body := sub.evalBool(e.Body)
	var t *Term
	if e.Kind == "forall" {
		t = c.Forall(bvs, c.Implies(c.And(rng...), body), x.indexPatterns(body, bvs)...)
	} else {
		t = c.Exists(bvs, c.And(append(rng, body)...))
	}
	return SV{VBool{t}, tBool}
}

// ---- sums ----

type sumInfo struct {
	fn     *FunDecl
	lim    *FunDecl
	params []*Term
	points []sumPoint
	done   map[string]bool
	lo     *Term
	bv     *Term
	body   *Term // f(bv)
	pos    string
}

// freeBoundVars lists the bound-variable leaves occurring free in t (in order
// of first occurrence), excluding variables bound by quantifiers inside t.
func freeBoundVars(t *Term) []*Term {
	var out []*Term
	seen := map[string]bool{}
	var rec func(t *Term, bound map[string]bool)
	rec = func(t *Term, bound map[string]bool) {
		if !t.open {
			return
		}
		if t.isVar {
			if !bound[t.op] && !seen[t.op] {
				seen[t.op] = true
				out = append(out, t)
			}
			return
		}
		if len(t.vars) > 0 {
			nb := map[string]bool{}
			for k := range bound {
				nb[k] = true
			}
			for _, v := range t.vars {
				nb[v.Name] = true
			}
			rec(t.args[0], nb)
			return
		}
		for _, a := range t.args {
			rec(a, bound)
		}
	}
	rec(t, map[string]bool{})
	return out
}

// evalSum: sum(j in [lo,hi): f(j)) becomes S(p.., hi) for a fresh S with
// S(p, lo)=0 and S(p, n)=S(p, n-1)+f(p, n-1) for n>lo, where p are the outer
// bound variables f mentions (e.g. a record index). S is what specifications
// mention; Slim is its "limited" synonym: unfolding S(n) yields Slim(n-1),
// which does not unfold again (no matching loops). Sums from the same source
// position over different states are related by extensionality; partial sums
// of non-negative summands are monotone. Unfolding is definitional;
// extensionality and monotonicity are meta-theorems (induction on n) and part
// of the trusted base.
func (env *SpecEnv) evalSum(e ESum) SV {
	x := env.X
	c := x.C
	lo := env.evalInt(e.Lo)
	hi := env.evalInt(e.Hi)
	sub := env.child()
	bv := c.NewBound(e.Var, SInt)
	sub.Vars[e.Var] = SV{VInt{bv}, tInt}
	body := sub.evalInt(e.Body)
	// outer bound variables become parameters
	var params []*Term
	for _, v := range append(freeBoundVars(body), freeBoundVars(lo)...) {
		if v == bv {
			continue
		}
		dup := false
		for _, p := range params {
			if p == v {
				dup = true
			}
		}
		if !dup {
			params = append(params, v)
		}
	}
	// canonical key: bound variables replaced by fixed markers
	m := map[*Term]*Term{bv: c.Const("sum!marker", SInt)}
	for i, p := range params {
		m[p] = c.Const(fmt.Sprintf("sum!pmarker%d", i), p.sort)
	}
	canon := c.Subst(body, m)
	canonLo := c.Subst(lo, m)
	key := fmt.Sprintf("%d|%d|%d", canon.id, canonLo.id, len(params))
	si, ok := x.sums[key]
	if !ok {
		sorts := make([]Sort, 0, len(params)+1)
		for _, p := range params {
			sorts = append(sorts, p.sort)
		}
		sorts = append(sorts, SInt)
		si = &sumInfo{fn: c.FreshFun("sum", sorts, SInt), lo: lo, bv: bv, body: body, pos: e.Pos, params: params}
		si.lim = c.Fun(si.fn.Name+"!lim", sorts, SInt)
		x.sums[key] = si
		// fresh quantified copies of the parameters
		var qp []*Term
		pm := map[*Term]*Term{}
		for _, p := range params {
			q := c.NewBound("p", p.sort)
			qp = append(qp, q)
			pm[p] = q
		}
		inst := func(t *Term, at *Term) *Term {
			mm := map[*Term]*Term{bv: at}
			for k, v := range pm {
				mm[k] = v
			}
			return c.Subst(t, mm)
		}
		app := func(f *FunDecl, at *Term) *Term { return c.Apply(f, append(append([]*Term{}, qp...), at)...) }
		n := c.NewBound("n", SInt)
		loq := inst(lo, n)
		sn := app(si.fn, n)
		ln := app(si.lim, n)
		vars := func(extra ...*Term) []*Term { return append(append([]*Term{}, qp...), extra...) }
		x.assumeGlobal(c.Forall(vars(n), c.Eq(sn, ln), []*Term{sn}))
		zero := c.Eq(app(si.lim, loq), c.Int(0))
		if len(qp) > 0 {
			zero = c.Forall(vars(), zero, []*Term{app(si.lim, loq)})
		}
		x.assumeGlobal(zero)
		fprev := inst(body, c.Sub(n, c.Int(1)))
		x.assumeGlobal(c.Forall(vars(n), c.Implies(c.Lt(loq, n),
			c.Eq(sn, c.Add(app(si.lim, c.Sub(n, c.Int(1))), fprev))), []*Term{sn}))
		fn := inst(body, n)
		if !x.dry {
			name := fmt.Sprintf("%s/lemma[sum-nonneg:%s]", x.unitName, si.fn.Name)
			goal := c.Forall(vars(n), c.Implies(c.Le(loq, n), c.Le(c.Int(0), fn)))
			o := &Oblig{Name: name, Kind: "lemma", Label: "sum-nonneg", Unit: x.unitName, Goal: goal,
				NAssume: len(x.assumes), Src: "summands are non-negative: " + e.Pos, Self: -1}
			x.obligs = append(x.obligs, o)
		}
		a := c.NewBound("a", SInt)
		b := c.NewBound("b", SInt)
		sa := app(si.lim, a)
		sb := app(si.lim, b)
		x.assumeGlobal(c.Forall(vars(a, b), c.Implies(c.And(c.Le(loq, a), c.Le(a, b)), c.Le(sa, sb)), []*Term{sa, sb}))
		// strict form: the partial sum up to and including a is below any later one (no new sum terms)
		x.assumeGlobal(c.Forall(vars(a, b), c.Implies(c.And(c.Le(loq, a), c.Lt(a, b)), c.Le(c.Add(sa, inst(body, a)), sb)), []*Term{sa, sb}))
		for _, other := range x.sumList {
			if other.pos != si.pos {
				continue
			}
			mq := c.NewBound("m", SInt)
			j := c.NewBound("j", SInt)
			f1 := inst(si.body, j)
			om := map[*Term]*Term{other.bv: j}
			var oq []*Term
			shared := len(other.params) == len(params)
			for i, p := range other.params {
				if shared {
					om[p] = qp[i]
					oq = append(oq, qp[i])
				} else {
					q := c.NewBound("r", p.sort)
					om[p] = q
					oq = append(oq, q)
				}
			}
			f2 := c.Subst(other.body, om)
			olo := c.Subst(other.lo, om)
			same := c.Forall([]*Term{j}, c.Implies(c.And(c.Le(loq, j), c.Lt(j, mq)), c.Eq(f1, f2)))
			s1 := app(si.lim, mq)
			s2 := c.Apply(other.lim, append(append([]*Term{}, oq...), mq)...)
			body := c.Implies(c.And(c.Eq(loq, olo), same), c.Eq(s1, s2))
			if shared {
				x.assumeGlobal(c.Forall(vars(mq), body, []*Term{s1}, []*Term{s2}))
			} else {
				// different parameterisations of the same sum (e.g. by record index vs. by record):
				// relate them when both partial sums are present
				all := append(append(append([]*Term{}, qp...), oq...), mq)
				x.assumeGlobal(c.Forall(all, body, []*Term{s1, s2}))
			}
		}
		x.sumList = append(x.sumList, si)
	}
	if hi.open || len(params) > 0 {
		// under a quantifier the limited synonym is used: instances of the enclosing
		// quantifier then create no unfoldable sum terms (no matching loops)
		return SV{VInt{c.Apply(si.lim, append(append([]*Term{}, params...), hi)...)}, nil}
	}
	return SV{VInt{c.Apply(si.fn, append(append([]*Term{}, params...), hi)...)}, nil}
}

type sumPoint struct {
	args []*Term // actual parameters
	at   *Term
}

// sumGround pre-instantiates the sum axioms at a ground application S(args, hi)
// (and its neighbours hi-1, hi+1): definitional unfolding, extensionality
// against related sums, monotonicity between known points. The quantified
// axioms remain for applications under quantifiers; these ground instances make
// proofs independent of the solvers' instantiation heuristics.
func (x *Exec) sumGround(si *sumInfo, args []*Term, hi *Term) {
	if hi.open {
		return
	}
	for _, a := range args {
		if a.open {
			return
		}
	}
	c := x.C
	key := fmt.Sprintf("%d", hi.id)
	for _, a := range args {
		key += fmt.Sprintf(",%d", a.id)
	}
	if si.done == nil {
		si.done = map[string]bool{}
	}
	if si.done[key] {
		return
	}
	si.done[key] = true
	inst := func(t *Term, at *Term) *Term {
		mm := map[*Term]*Term{si.bv: at}
		for i, p := range si.params {
			mm[p] = args[i]
		}
		return c.Subst(t, mm)
	}
	app := func(f *FunDecl, at *Term) *Term { return c.Apply(f, append(append([]*Term{}, args...), at)...) }
	lo := inst(si.lo, hi)
	one := c.Int(1)
	pts := []*Term{c.Sub(hi, one), hi, c.Add(hi, one)}
	x.assumeGlobal(c.Eq(app(si.fn, hi), app(si.lim, hi)))
	x.assumeGlobal(c.Implies(c.Lt(lo, hi), c.Eq(app(si.lim, hi), c.Add(app(si.lim, c.Sub(hi, one)), inst(si.body, c.Sub(hi, one))))))
	x.assumeGlobal(c.Implies(c.Le(lo, hi), c.Eq(app(si.lim, c.Add(hi, one)), c.Add(app(si.lim, hi), inst(si.body, hi)))))
	x.assumeGlobal(c.Implies(c.Le(hi, lo), c.Implies(c.Eq(hi, lo), c.Eq(app(si.lim, hi), c.Int(0)))))
	// monotonicity between the new points and the known ones (same function, same parameters)
	for _, p := range pts {
		for _, q := range si.points {
			same := len(q.args) == len(args)
			for i := range args {
				if same && q.args[i] != args[i] {
					same = false
				}
			}
			if !same {
				continue
			}
			x.assumeGlobal(c.Implies(c.And(c.Le(lo, p), c.Le(p, q.at)), c.Le(app(si.lim, p), app(si.lim, q.at))))
			x.assumeGlobal(c.Implies(c.And(c.Le(lo, q.at), c.Le(q.at, p)), c.Le(app(si.lim, q.at), app(si.lim, p))))
		}
	}
	x.assumeGlobal(c.Implies(c.Le(lo, c.Sub(hi, one)), c.Le(app(si.lim, c.Sub(hi, one)), app(si.lim, hi))))
	x.assumeGlobal(c.Implies(c.Le(lo, hi), c.Le(app(si.lim, hi), app(si.lim, c.Add(hi, one)))))
	for _, p := range pts {
		si.points = append(si.points, sumPoint{args, p})
	}
	// extensionality against related sums at all points known for either
	for _, other := range x.sumList {
		if other == si || other.pos != si.pos {
			continue
		}
		x.sumExtGround(si, other)
	}
}

// sumExtGround: ground instances of extensionality between two related sums at
// every pair of known points with provably-comparable positions.
func (x *Exec) sumExtGround(a, b *sumInfo) {
	c := x.C
	for _, pa := range a.points {
		for _, pb := range b.points {
			k := fmt.Sprintf("%s|%s|%d|%d", a.fn.Name, b.fn.Name, pa.at.id, pb.at.id)
			for _, t := range pa.args {
				k += fmt.Sprintf(",%d", t.id)
			}
			k += ";"
			for _, t := range pb.args {
				k += fmt.Sprintf(",%d", t.id)
			}
			if x.extDone[k] {
				continue
			}
			x.extDone[k] = true
			if pa.at != pb.at && !(pa.at.ival == nil && pb.at.ival == nil) {
				// different literal/non-literal positions are compared only when syntactically equal
				continue
			}
			j := c.NewBound("j", SInt)
			ma := map[*Term]*Term{a.bv: j}
			for i, p := range a.params {
				ma[p] = pa.args[i]
			}
			mb := map[*Term]*Term{b.bv: j}
			for i, p := range b.params {
				mb[p] = pb.args[i]
			}
			fa := c.Subst(a.body, ma)
			fb := c.Subst(b.body, mb)
			loa := c.Subst(a.lo, ma)
			lob := c.Subst(b.lo, mb)
			same := c.Forall([]*Term{j}, c.Implies(c.And(c.Le(loa, j), c.Lt(j, pa.at)), c.Eq(fa, fb)))
			sa := c.Apply(a.lim, append(append([]*Term{}, pa.args...), pa.at)...)
			sb := c.Apply(b.lim, append(append([]*Term{}, pb.args...), pb.at)...)
			x.assumeGlobal(c.Implies(c.And(c.Eq(loa, lob), c.Eq(pa.at, pb.at), same), c.Eq(sa, sb)))
		}
	}
}

// ---- selectors / indexing ----

// resolveField finds field `name` of struct type T at address addr, following
// embedded by-value structs (shared address) and embedded pointers (loaded).
func (x *Exec) resolveField(env *SpecEnv, T types.Type, addr *Term, name string) (types.Type, FieldInfo, *Term, bool) {
	for _, fi := range x.Sh.Fields(T) {
		if fi.Name == name || fi.Name == "$"+name {
			return T, fi, addr, true
		}
	}
	st := structOf(T)
	if st == nil {
		return nil, FieldInfo{}, nil, false
	}
	for _, fi := range x.Sh.Fields(T) {
		if fi.Ghost {
			continue
		}
		f := st.Field(fi.Index)
		if !f.Embedded() {
			continue
		}
		ft := fi.Type
		if structOf(ft) != nil && !isOpaqueInt(ft) {
			if _, isPtr := typeUnder(ft).(*types.Pointer); !isPtr {
				if T2, fi2, a2, ok := x.resolveField(env, ft, addr, name); ok {
					return T2, fi2, a2, true
				}
			}
		}
		if p, isPtr := typeUnder(ft).(*types.Pointer); isPtr && structOf(p.Elem()) != nil {
			inner := x.loadFieldSpec(env.Cur, T, fi, addr).(VInt).T
			if T2, fi2, a2, ok := x.resolveField(env, p.Elem(), inner, name); ok {
				return T2, fi2, a2, true
			}
		}
	}
	return nil, FieldInfo{}, nil, false
}

func (env *SpecEnv) evalSel(e ESel) SV {
	x := env.X
	// package-qualified global or constant: pkg.Name
	if id, ok := e.X.(EIdent); ok {
		if _, isVar := env.Vars[id.Name]; !isVar {
			if _, isLet := env.Lets[id.Name]; !isLet {
				if sv, ok := env.lookupQualified(id.Name, e.Name); ok {
					return sv
				}
			}
		}
	}
	base := env.eval(e.X)
	// by-value struct
	if sv, ok := base.V.(VStruct); ok && base.T != nil {
		for i, fi := range x.Sh.Fields(base.T) {
			if fi.Name == e.Name || fi.Name == "$"+e.Name {
				return SV{sv.F[i], fi.Type}
			}
		}
		specFail("no field %s in struct value of type %s", e.Name, base.T)
	}
	if iv, ok := base.V.(VIface); ok {
		switch e.Name {
		case "tag":
			return SV{VInt{iv.Tag}, nil}
		case "ptr":
			return SV{VInt{iv.Val}, nil}
		}
		specFail("field %s selected on an interface value; cast it first with .(*T)", e.Name)
	}
	if p, ok := base.V.(VPtr); ok {
		// pointer to a struct-typed global or cell is not modelled; pointer to slice cell: deref implicitly
		inner := env.loadPtr(p)
		return (&SpecEnv{X: x, Vars: map[string]SV{"$tmp": {inner, p.Elem}}, Cur: env.Cur, Old: env.Old, Pkg: env.Pkg}).eval(ESel{EIdent{"$tmp"}, e.Name})
	}
	T, addr := x.structPtrOf(base)
	if T == nil {
		specFail("selector .%s on non-struct-pointer (%T, type %v)", e.Name, base.V, base.T)
	}
	T2, fi, a2, ok := x.resolveField(env, T, addr, e.Name)
	if !ok {
		specFail("type %s has no field %s", T, e.Name)
	}
	if structOf(fi.Type) != nil && !isOpaqueInt(fi.Type) {
		if _, isPtr := typeUnder(fi.Type).(*types.Pointer); !isPtr {
			// a by-value struct field denotes the nested object (it shares the parent's address)
			return SV{VInt{a2}, types.NewPointer(fi.Type)}
		}
	}
	return SV{x.loadFieldSpec(env.Cur, T2, fi, a2), fi.Type}
}

func (env *SpecEnv) evalIndex(e EIndex) SV {
	x := env.X
	base := env.eval(e.X)
	switch b := base.V.(type) {
	case VSlice:
		idx := env.evalInt(e.I)
		var elem types.Type
		if base.T != nil {
			if sl, ok := typeUnder(base.T).(*types.Slice); ok {
				elem = sl.Elem()
			}
		}
		if elem == nil {
			specFail("indexing slice of unknown element type")
		}
		return SV{x.loadElemSpec(env.Cur, elem, b.Arr, x.slot(b.Off, idx)), elem}
	case VInt:
		if base.T != nil {
			switch u := typeUnder(base.T).(type) {
			case *types.Map:
				k := env.eval(e.I)
				key := x.keyTermSpec(k.V, u.Key())
				return SV{x.mapGet(env.Cur, u, b.T, key), u.Elem()}
			case *types.Basic:
				if u.Info()&types.IsString != 0 {
					return SV{VInt{x.sat(b.T, env.evalInt(e.I))}, types.Typ[types.Uint8]}
				}
			}
		}
	}
	specFail("cannot index %T (type %v)", base.V, base.T)
	return SV{}
}

func (x *Exec) keyTermSpec(kv Val, kt types.Type) *Term {
	c := x.C
	switch k := kv.(type) {
	case VInt:
		return k.T
	case VBool:
		return c.Ite(k.T, c.Int(1), c.Int(0))
	case VStruct:
		ts := x.Sh.Flatten(kv)
		srt := make([]Sort, len(ts))
		for i, t := range ts {
			srt[i] = t.sort
		}
		return c.Apply(c.Fun("mkkey!"+typeName(kt), srt, SInt), ts...)
	}
	specFail("map key %T", kv)
	return nil
}

// ---- names: globals, constants, types ----

func (env *SpecEnv) pkgByName(name string) *types.Package {
	x := env.X
	if env.Pkg != nil {
		if env.Pkg.Pkg.Name() == name {
			return env.Pkg.Pkg
		}
		for _, imp := range env.Pkg.Pkg.Imports() {
			if imp.Name() == name {
				return imp
			}
		}
	}
	for _, p := range x.W.Prog.AllPackages() {
		if p.Pkg.Name() == name && x.W.IsRepoPkg(p.Pkg) {
			return p.Pkg
		}
	}
	// a library package: the import path itself, else the shortest path with that name (deterministic)
	var best *types.Package
	for _, p := range x.W.Prog.AllPackages() {
		if p.Pkg.Path() == name {
			return p.Pkg
		}
		if p.Pkg.Name() == name {
			if best == nil || len(p.Pkg.Path()) < len(best.Path()) || len(p.Pkg.Path()) == len(best.Path()) && p.Pkg.Path() < best.Path() {
				best = p.Pkg
			}
		}
	}
	return best
}

func (env *SpecEnv) objToSV(obj types.Object) (SV, bool) {
	x := env.X
	switch o := obj.(type) {
	case *types.Const:
		sp := x.W.Prog.Package(o.Pkg())
		if sp != nil {
			if nc, ok := sp.Members[o.Name()].(*ssa.NamedConst); ok {
				return SV{x.constVal(nc.Value), o.Type()}, true
			}
		}
		return SV{x.constVal(ssa.NewConst(o.Val(), o.Type())), o.Type()}, true
	case *types.Var:
		sp := x.W.Prog.Package(o.Pkg())
		if sp == nil {
			return SV{}, false
		}
		if g, ok := sp.Members[o.Name()].(*ssa.Global); ok {
			p := VPtr{Kind: PGlobal, Glob: globalName(g), Elem: o.Type()}
			if structOf(o.Type()) != nil && !isOpaqueInt(o.Type()) {
				return SV{VInt{x.globalAddr(globalName(g))}, types.NewPointer(o.Type())}, true
			}
			return SV{x.loadGlobalSpec(env.Cur, p), o.Type()}, true
		}
	}
	return SV{}, false
}

func (env *SpecEnv) lookupGlobal(name string) (SV, bool) {
	if env.Pkg != nil {
		if obj := env.Pkg.Pkg.Scope().Lookup(name); obj != nil {
			return env.objToSV(obj)
		}
	}
	// constants of other repo packages may be used unqualified when unambiguous
	var found types.Object
	for _, p := range env.X.W.Prog.AllPackages() {
		if !env.X.W.IsRepoPkg(p.Pkg) {
			continue
		}
		if obj := p.Pkg.Scope().Lookup(name); obj != nil {
			if _, isConst := obj.(*types.Const); isConst {
				if found != nil && found.Pkg() != obj.Pkg() {
					return SV{}, false
				}
				found = obj
			}
		}
	}
	if found != nil {
		return env.objToSV(found)
	}
	return SV{}, false
}

func (env *SpecEnv) lookupQualified(pkg, name string) (SV, bool) {
	p := env.pkgByName(pkg)
	if p == nil {
		return SV{}, false
	}
	obj := p.Scope().Lookup(name)
	if obj == nil {
		return SV{}, false
	}
	return env.objToSV(obj)
}

func (env *SpecEnv) resolveType(s string) types.Type {
	s = strings.TrimSpace(s)
	switch {
	case strings.HasPrefix(s, "*"):
		return types.NewPointer(env.resolveType(s[1:]))
	case strings.HasPrefix(s, "[]"):
		return types.NewSlice(env.resolveType(s[2:]))
	case strings.HasPrefix(s, "map["):
		d := 0
		for i := 3; i < len(s); i++ {
			if s[i] == '[' {
				d++
			} else if s[i] == ']' {
				d--
				if d == 0 {
					return types.NewMap(env.resolveType(s[4:i]), env.resolveType(s[i+1:]))
				}
			}
		}
	}
	if s == "interface{}" {
		return types.NewInterfaceType(nil, nil)
	}
	switch {
	case strings.HasPrefix(s, "chan<- "):
		return types.NewChan(types.SendOnly, env.resolveType(s[len("chan<- "):]))
	case strings.HasPrefix(s, "<-chan "):
		return types.NewChan(types.RecvOnly, env.resolveType(s[len("<-chan "):]))
	case strings.HasPrefix(s, "chan "):
		return types.NewChan(types.SendRecv, env.resolveType(s[len("chan "):]))
	}
	if obj := types.Universe.Lookup(s); obj != nil {
		if tn, ok := obj.(*types.TypeName); ok {
			return tn.Type()
		}
	}
	if i := strings.LastIndex(s, "."); i >= 0 {
		p := env.pkgByName(s[:i])
		if p != nil {
			if obj := p.Scope().Lookup(s[i+1:]); obj != nil {
				if tn, ok := obj.(*types.TypeName); ok {
					return tn.Type()
				}
			}
		}
		specFail("unknown type %q", s)
	}
	if env.Pkg != nil {
		if obj := env.Pkg.Pkg.Scope().Lookup(s); obj != nil {
			if tn, ok := obj.(*types.TypeName); ok {
				return tn.Type()
			}
		}
	}
	// search repo packages
	for _, p := range env.X.W.Prog.AllPackages() {
		if env.X.W.IsRepoPkg(p.Pkg) {
			if obj := p.Pkg.Scope().Lookup(s); obj != nil {
				if tn, ok := obj.(*types.TypeName); ok {
					return tn.Type()
				}
			}
		}
	}
	specFail("unknown type %q", s)
	return nil
}

// ---- calls: builtins and pure functions ----

func (env *SpecEnv) evalCall(e ECall) SV {
	x := env.X
	c := x.C
	arg := func(i int) SV {
		if i >= len(e.Args) {
			specFail("%s: missing argument %d", e.Fn, i)
		}
		return env.eval(e.Args[i])
	}
	switch e.Fn {
	case "len":
		a := arg(0)
		switch v := a.V.(type) {
		case VSlice:
			return SV{VInt{v.Len}, tInt}
		case VInt:
			if a.T != nil {
				if mt, ok := typeUnder(a.T).(*types.Map); ok {
					_, ln := x.mapComp(env.Cur, mt, ".len", SInt)
					return SV{VInt{c.Select(ln, v.T)}, tInt}
				}
			}
			return SV{VInt{x.slen(v.T)}, tInt}
		}
		specFail("len of %T", a.V)
	case "cap":
		if v, ok := arg(0).V.(VSlice); ok {
			return SV{VInt{v.Cap}, tInt}
		}
	case "arr":
		if v, ok := arg(0).V.(VSlice); ok {
			return SV{VInt{v.Arr}, tInt}
		}
		specFail("arr of non-slice")
	case "off":
		if v, ok := arg(0).V.(VSlice); ok {
			return SV{VInt{v.Off}, tInt}
		}
	case "is":
		a := arg(0)
		iv, ok := a.V.(VIface)
		if !ok {
			specFail("is() on non-interface")
		}
		tl, ok := e.Args[1].(ETypeLit)
		if !ok {
			specFail("is() needs a type")
		}
		T := env.resolveType(tl.Type)
		return SV{VBool{c.Eq(iv.Tag, c.Int(int64(x.W.TypeTag(T))))}, tBool}
	case "iserrval":
		// the value is an error built by fmt.Errorf / errors.New (native model: *errorString)
		if iv, ok := arg(0).V.(VIface); ok {
			return SV{VBool{c.Eq(iv.Tag, c.Int(int64(x.W.TypeTag(types.NewPointer(errorStringType())))))}, tBool}
		}
		specFail("iserrval() on non-interface")
	case "typeof":
		if iv, ok := arg(0).V.(VIface); ok {
			return SV{VInt{iv.Tag}, nil}
		}
	case "isnil":
		a := arg(0)
		switch v := a.V.(type) {
		case VIface:
			return SV{VBool{c.Eq(v.Tag, c.Int(0))}, tBool}
		case VInt:
			return SV{VBool{c.Eq(v.T, c.Int(0))}, tBool}
		case VSlice:
			return SV{VBool{c.Eq(v.Arr, c.Int(0))}, tBool}
		case nil:
			return SV{VBool{c.True()}, tBool}
		}
	case "fresh":
		a := arg(0)
		var t *Term
		switch v := a.V.(type) {
		case VInt:
			t = v.T
		case VSlice:
			t = v.Arr
		case VIface:
			t = v.Val
		default:
			specFail("fresh() of %T", a.V)
		}
		return SV{VBool{c.And(c.Lt(env.Old.Alloc, t), c.Le(t, env.Cur.Alloc))}, tBool}
	case "allocated":
		a := arg(0)
		var t *Term
		switch v := a.V.(type) {
		case VInt:
			t = v.T
		case VSlice:
			t = v.Arr
		case VIface:
			t = v.Val
		}
		return SV{VBool{c.And(c.Le(c.Int(0), t), c.Le(t, env.Cur.Alloc))}, tBool}
	case "has":
		m := arg(0)
		mt, ok := typeUnder(m.T).(*types.Map)
		if !ok {
			specFail("has() on non-map")
		}
		k := arg(1)
		return SV{VBool{x.mapHas(env.Cur, mt, m.V.(VInt).T, x.keyTermSpec(k.V, mt.Key()))}, tBool}
	case "min":
		return SV{VInt{c.Min(env.evalInt(e.Args[0]), env.evalInt(e.Args[1]))}, nil}
	case "max":
		return SV{VInt{c.Max(env.evalInt(e.Args[0]), env.evalInt(e.Args[1]))}, nil}
	case "pow2":
		k := env.evalInt(e.Args[0])
		if k.ival == nil {
			specFail("pow2 needs a constant")
		}
		return SV{VInt{c.Pow2(uint(k.ival.Int64()))}, nil}
	case "int":
		return SV{VInt{env.evalInt(e.Args[0])}, nil}
	case "b2i":
		return SV{VInt{c.Ite(env.evalBool(e.Args[0]), c.Int(1), c.Int(0))}, nil}
	case "sat":
		return SV{VInt{x.sat(env.evalInt(e.Args[0]), env.evalInt(e.Args[1]))}, nil}
	case "mapkey":
		a := arg(0)
		if a.T == nil {
			specFail("mapkey needs a typed value")
		}
		return SV{VInt{x.keyTermSpec(a.V, a.T)}, nil}
	case "contains":
		// contains(s, sub): strings.Contains as the executor models it (decided for literals, uninterpreted otherwise)
		if r, ok := x.strContains(arg(0).V, arg(1).V); ok {
			return SV{r, tBool}
		}
		return SV{VBool{c.Apply(c.Fun("strcontains", []Sort{SInt, SInt}, SBool), env.evalInt(e.Args[0]), env.evalInt(e.Args[1]))}, tBool}
	case "lastIndex":
		return SV{VInt{c.Apply(c.Fun("strLastIndex", []Sort{SInt, SInt}, SInt), env.evalInt(e.Args[0]), env.evalInt(e.Args[1]))}, tInt}
	case "sameElems":
		// sameElems(a, b): equal length and pointwise equal contents
		a, b := arg(0), arg(1)
		as, ok1 := a.V.(VSlice)
		bs, ok2 := b.V.(VSlice)
		if !ok1 || !ok2 {
			specFail("sameElems needs slices")
		}
		i := c.NewBound("i", SInt)
		sub := env.child()
		sub.Vars["$a"] = a
		sub.Vars["$b"] = b
		sub.Vars["$k"] = SV{VInt{i}, tInt}
		ea := sub.eval(EIndex{EIdent{"$a"}, EIdent{"$k"}})
		eb := sub.eval(EIndex{EIdent{"$b"}, EIdent{"$k"}})
		body := c.Implies(c.InRange(i, c.Int(0), as.Len), sub.specEq(ea, eb))
		return SV{VBool{c.And(c.Eq(as.Len, bs.Len), c.Forall([]*Term{i}, body))}, tBool}
	case "held":
		// held(m): m is a pointer to a mutex; ghost $held
		return env.eval(ESel{e.Args[0], "$held"})
	case "chanCount":
		ch := arg(0)
		elem := typeUnder(ch.T).(*types.Chan).Elem()
		_, n := x.chanComp(env.Cur, elem, ".n", SInt)
		return SV{VInt{c.Select(n, ch.V.(VInt).T)}, tInt}
	case "chanAt":
		ch := arg(0)
		elem := typeUnder(ch.T).(*types.Chan).Elem()
		idx := env.evalInt(e.Args[1])
		ls := x.Sh.Leaves(elem)
		ts := make([]*Term, len(ls))
		for i, l := range ls {
			_, comp := x.chanComp(env.Cur, elem, ".log"+l.Suffix, l.Sort)
			ts[i] = c.Select(c.Select(comp, ch.V.(VInt).T), idx)
		}
		return SV{x.Sh.Unflatten(elem, ts), elem}
	}
	if af, ok := x.W.Specs.Abstracts[e.Fn]; ok {
		var sorts []Sort
		var args []*Term
		for i, p := range af.Params {
			a := env.eval(e.Args[i])
			if p.Type == "bool" {
				sorts = append(sorts, SBool)
				args = append(args, a.V.(VBool).T)
			} else {
				sorts = append(sorts, SInt)
				args = append(args, a.V.(VInt).T)
			}
		}
		if af.Ret == "bool" {
			return SV{VBool{c.Apply(c.Fun("abs!"+af.Name, sorts, SBool), args...)}, tBool}
		}
		return SV{VInt{c.Apply(c.Fun("abs!"+af.Name, sorts, SInt), args...)}, nil}
	}
	// pure function
	if pf, ok := x.W.Specs.Pures[e.Fn]; ok {
		if len(e.Args) != len(pf.Params) {
			specFail("%s: expected %d arguments", e.Fn, len(pf.Params))
		}
		if env.depth > 60 {
			specFail("pure function recursion too deep at %s", e.Fn)
		}
		sub := &SpecEnv{X: x, Vars: map[string]SV{}, Cur: env.Cur, Old: env.Old, Pkg: env.Pkg, Frame: env.Frame, depth: env.depth + 1}
		if pf.Pkg != "" {
			if sp := x.W.SSAPkgs[pf.Pkg]; sp != nil {
				sub.Pkg = sp
			}
		}
		for i, p := range pf.Params {
			a := env.eval(e.Args[i])
			pt := sub.resolveParamType(p.Type)
			if a.V == nil {
				a = SV{x.zero(pt), pt}
			}
			if pt != nil {
				a.T = pt
			}
			sub.Vars[p.Name] = a
		}
		r := sub.eval(pf.Body)
		if r.T == nil && pf.Ret != "" && pf.Ret != "int" && pf.Ret != "bool" {
			r.T = sub.resolveType(pf.Ret)
		}
		return r
	}
	specFail("unknown function %q", e.Fn)
	return SV{}
}

func (env *SpecEnv) resolveParamType(s string) types.Type {
	switch s {
	case "int":
		return tInt
	case "bool":
		return tBool
	case "any":
		return nil
	}
	return env.resolveType(s)
}

var _ = big.NewInt

// indexPatterns chooses explicit triggers for a spec quantifier: array reads
// whose index is slot(off, v) (or v itself) for a bound variable v. Leaving the
// choice to the solver tends to pick bare slot(0, v), which matches every index
// term of every zero-offset slice (matching loops).
func (x *Exec) indexPatterns(body *Term, bvs []*Term) [][]*Term {
	if len(bvs) != 1 || os.Getenv("GOVC_NOIDXPAT") != "" {
		return nil
	}
	v := bvs[0]
	var cands []*Term
	seen := map[int]bool{}
	var rec func(t *Term, inner map[string]bool)
	rec = func(t *Term, inner map[string]bool) {
		if !t.open {
			return
		}
		if len(t.vars) > 0 {
			ni := map[string]bool{}
			for k := range inner {
				ni[k] = true
			}
			for _, bv := range t.vars {
				ni[bv.Name] = true
			}
			rec(t.args[0], ni)
			return
		}
		if seen[t.id] {
			return
		}
		seen[t.id] = true
		if t.op == "select" && len(t.args) == 2 {
			idx := t.args[1]
			direct := idx == v || (idx.op == "slot" && len(idx.args) == 2 && idx.args[1] == v)
			if direct {
				ok := true
				for _, fv := range freeBoundVars(t) {
					if inner[fv.op] {
						ok = false
					}
				}
				if ok {
					if idx.op == "slot" && idx.args[0].ival == nil {
						// a symbolic offset identifies the slice: the bare index term is a safe, more permissive trigger
						cands = append(cands, idx)
					} else {
						cands = append(cands, t)
					}
				}
			}
		}
		for _, a := range t.args {
			rec(a, inner)
		}
	}
	rec(body, map[string]bool{})
	{
		var uniq []*Term
		seenC := map[int]bool{}
		for _, cnd := range cands {
			if !seenC[cnd.id] {
				seenC[cnd.id] = true
				uniq = append(uniq, cnd)
			}
		}
		cands = uniq
	}
	if len(cands) == 0 {
		return nil
	}
	if len(cands) > 3 {
		cands = cands[:3]
	}
	var out [][]*Term
	for _, cnd := range cands {
		out = append(out, []*Term{cnd})
	}
	return out
}
