package govc

// Property checks: property -> units -> obligations -> verdict, evidence, VIOLATION lines
// (DESIGN §5, §10).

import (
	"encoding/json"
	"flag"
	"fmt"
	"golang.org/x/tools/go/ssa"
	"os"
	"os/exec"
	"path/filepath"
	"sort"
	"strconv"
	"strings"
	"time"
)

type PropMap struct {
	Properties map[string]*PropEntry `json:"properties"`
}

type PropEntry struct {
	Title          string              `json:"title"`
	Pkgs           []string            `json:"pkgs"`
	Units          []string            `json:"units"`                    // unit short names (substring match on exact short name)
	ThoroughUnits  []string            `json:"thorough_units,omitempty"` // units verified in the thorough tier only (obligations that need more than the quick time limit); the quick tier uses their contracts
	Only           map[string][]string `json:"only,omitempty"`           // unit -> obligation-name substrings owned by this property (default: all)
	Exclude        map[string][]string `json:"exclude,omitempty"`        // unit -> obligation-name substrings owned by another property
	ThoroughOnly   map[string][]string `json:"thorough_only,omitempty"`  // unit -> obligation-name substrings checked in the thorough tier only (they need more than the quick time limit); assumed after their call site as always
	MinObligations int                 `json:"min_obligations"`
	CheckLocks     bool                `json:"check_locks,omitempty"`
	LeanLemmas     []string            `json:"lean_lemmas,omitempty"` // files under /verif checked with `lean` in the thorough tier (induction lemmas the SMT solvers cannot do)
	NoFrames       bool                `json:"no_frames,omitempty"`
	Assumptions    []string            `json:"assumptions,omitempty"`
	Enumerations   []string            `json:"enumerations,omitempty"`
	Lemmas         []string            `json:"lemmas,omitempty"`
}

type KnownFinding struct {
	Kind        string   `json:"kind"` // "known" or "fixed"
	Property    string   `json:"property"`
	Unit        string   `json:"unit,omitempty"`
	Obligations []string `json:"obligations,omitempty"` // obligation names (exact) that fail because of this finding
	Region      string   `json:"region,omitempty"`      // spec predicate over the unit's entry state: the failing inputs
	What        string   `json:"what"`
	Witness     string   `json:"witness,omitempty"` // replay file under /verif/replay/known/
	Commit      string   `json:"commit,omitempty"`  // for fixed entries
}

type KnownFindings struct {
	Findings []KnownFinding `json:"findings"`
}

type obligReport struct {
	Name    string  `json:"name"`
	Kind    string  `json:"kind"`
	Status  string  `json:"status"`
	Solver  string  `json:"solver,omitempty"`
	Seconds float64 `json:"seconds"`
	Src     string  `json:"clause,omitempty"`
	Parts   int     `json:"parts,omitempty"`
	Bounded bool    `json:"bounded,omitempty"`
	Note    string  `json:"note,omitempty"`
}

type unitReport struct {
	Unit        string   `json:"unit"`
	SourceHash  string   `json:"source_sha256_prefix"`
	SSAInstrs   int      `json:"ssa_instructions"`
	Obligations int      `json:"obligations"`
	Discharged  int      `json:"discharged"`
	Loops       int      `json:"loops"`
	Notes       []string `json:"abstractions,omitempty"`
	Error       string   `json:"error,omitempty"`
}

func verifDir() string {
	if d := os.Getenv("VERIF_DIR"); d != "" {
		return d
	}
	return "/verif"
}

// evidenceDir: where evidence and replay files are written (VERIF_EVIDENCE_DIR redirects it, used when a
// check is run against a scratch copy of the repository so that the committed evidence is not overwritten).
func evidenceDir(vd string) string {
	if d := os.Getenv("VERIF_EVIDENCE_DIR"); d != "" {
		return d
	}
	return filepath.Join(vd, "evidence")
}

func loadJSON(path string, v interface{}) error {
	data, err := os.ReadFile(path)
	if err != nil {
		return err
	}
	return json.Unmarshal(data, v)
}

func ownsObligation(pe *PropEntry, unit string, name string) bool {
	if subs, ok := pe.Only[unit]; ok {
		for _, s := range subs {
			if strings.Contains(name, s) {
				return true
			}
		}
		return false
	}
	for _, s := range pe.Exclude[unit] {
		if strings.Contains(name, s) {
			return false
		}
	}
	return true
}

// allUnitOwners: unit (short name) -> properties whose checks verify it (from properties.map.json)
var allUnitOwners = map[string][]string{}

func cmdCheck(args []string) int {
	fs := flag.NewFlagSet("check", flag.ExitOnError)
	prop := fs.String("property", "", "property id")
	tier := fs.String("tier", "quick", "quick|thorough")
	repo := fs.String("repo", "/repo", "repository")
	verbose := fs.Bool("v", false, "verbose")
	fs.Parse(args)
	if t := os.Getenv("VERIF_TIER"); t != "" && *tier == "" {
		*tier = t
	}
	seed := 0
	if s := os.Getenv("VERIF_SEED"); s != "" {
		seed, _ = strconv.Atoi(s)
	}
	start := time.Now()
	vd := verifDir()
	var pm PropMap
	if err := loadJSON(filepath.Join(vd, "properties.map.json"), &pm); err != nil {
		fmt.Println("cannot read properties.map.json:", err)
		return 2
	}
	for pid, e := range pm.Properties {
		for _, u := range e.Units {
			allUnitOwners[u] = append(allUnitOwners[u], pid)
		}
		for _, u := range e.ThoroughUnits {
			allUnitOwners[u] = append(allUnitOwners[u], pid+" (thorough tier only)")
		}
	}
	for _, o := range allUnitOwners {
		sort.Strings(o)
	}
	pe := pm.Properties[*prop]
	if pe == nil {
		fmt.Println("unknown property", *prop)
		return 2
	}
	var kf KnownFindings
	_ = loadJSON(filepath.Join(vd, "known_findings.json"), &kf)

	timeout := 10
	if *tier == "thorough" {
		timeout = 120
	}
	res := runProperty(*prop, pe, &kf, *repo, vd, timeout, *tier, seed, *verbose)
	res.WallS = time.Since(start).Seconds()
	writeEvidence(vd, res)
	for _, l := range res.Lines {
		fmt.Println(l)
	}
	fmt.Printf("property %s tier %s: %d obligations, %d discharged, %d violations, %d known findings, %.1fs\n",
		*prop, *tier, res.Obligations, res.Discharged, res.Violations, res.Known, res.WallS)
	if res.Violations > 0 {
		return 1
	}
	return 0
}

type propResult struct {
	Prop        string
	Tier        string
	Seed        int
	Obligations int
	Discharged  int
	Bounded     int
	Violations  int
	Known       int
	Lines       []string
	Units       []unitReport
	Obligs      []obligReport
	Samples     []interface{}
	Assumptions []string
	Trusted     []string
	WallS       float64
	SolverTime  float64
	BySolver    map[string]int
	Cmd         string
	Extra       map[string]interface{}
}

func runProperty(prop string, pe *PropEntry, kf *KnownFindings, repo, vd string, timeout int, tier string, seed int, verbose bool) *propResult {
	coverTotal, coverReach := 0, 0
	var coverUnreach []string
	res := &propResult{Prop: prop, Tier: tier, Seed: seed, BySolver: map[string]int{}, Extra: map[string]interface{}{}}
	res.Cmd = fmt.Sprintf("govc check -property %s -tier %s (VC generation over go/ssa from %s; z3-new 5.1.0, z3 4.8.12, cvc5 1.0.3 raced per obligation, %ds)", prop, tier, repo, timeout)
	fail := func(name, why string) {
		res.Violations++
		rp := writeReplay(vd, prop, name, map[string]interface{}{"obligation": name, "reason": why, "replayed": false})
		res.Lines = append(res.Lines, fmt.Sprintf("VIOLATION property=%s replay=%s no-failing-input-found", prop, rp))
	}
	pats := pe.Pkgs
	if len(pats) == 0 {
		pats = repoPatterns()
	}
	w, err := LoadWorld(repo, pats)
	if err != nil {
		fail("load", "the current tree does not load/type-check with -tags verif: "+err.Error())
		return res
	}
	db, err := LoadSpecs(repo, filepath.Join(vd, "models"))
	if err != nil {
		fail("contracts", "contract files do not parse: "+err.Error())
		return res
	}
	w.Specs = db
	// resolve units
	var units []*UnitResult
	byShort := map[string]*FuncSpec{}
	for k, sp := range db.Funcs {
		if !sp.Extern || w.ResolveSpecFunc(sp) != nil {
			// library contracts are assumptions, except those whose function has a body and can be verified as a unit
			byShort[unitShortName(k)] = sp
		}
	}
	opts := UnitOpts{CheckFrames: !pe.NoFrames, CheckLocks: pe.CheckLocks, CoverBlocks: tier == "thorough"}
	unitNames := append([]string{}, pe.Units...)
	if tier == "thorough" {
		unitNames = append(unitNames, pe.ThoroughUnits...)
	}
	for _, un := range unitNames {
		sp := byShort[un]
		if sp == nil {
			fail("unit:"+un, "no contract found for unit "+un)
			continue
		}
		u := GenerateUnit(w, sp, opts)
		units = append(units, u)
	}
	// call sites of the units' functions (those with preconditions) in functions without a contract: the precondition is an
	// assumption there; sites not in the committed list are undischarged precondition obligations
	{
		callees := map[*ssa.Function]bool{}
		for _, un := range unitNames {
			if sp := byShort[un]; sp != nil && !sp.Extern && len(sp.Requires) > 0 {
				if fn := w.ResolveSpecFunc(sp); fn != nil {
					callees[fn] = true
				}
			}
		}
		sites := w.assumedCallSites(callees)
		var base struct {
			Sites map[string][]string `json:"sites"`
		}
		_ = loadJSON(filepath.Join(vd, "assumed_callsites.json"), &base)
		listed := map[string]bool{}
		for _, s := range base.Sites[prop] {
			listed[s] = true
		}
		if os.Getenv("GOVC_WRITE_CALLSITES") != "" {
			// listing mode (tools/write_callsites.sh): print the sites and stop before solving
			fmt.Printf("CALLSITES %s %s\n", prop, strings.Join(sites, " | "))
			return res
		} else {
			for _, s := range sites {
				if !listed[s] {
					fail("pre:callsite:"+s, "call site of a contracted function with preconditions in a function that has no contract and is not listed in assumed_callsites.json: the precondition is not checked there ("+s+")")
				}
			}
		}
		if len(sites) > 0 {
			res.Extra["preconditions_assumed_at_call_sites"] = map[string]interface{}{"sites": sites,
				"note": "caller -> callee: the caller has no contract, so the callee's precondition is assumed at this call site (entry points, goroutine bodies, helpers); committed in /verif/assumed_callsites.json, a site not listed there is reported"}
		}
	}
	for _, ln := range pe.Lemmas {
		var found *LemmaSpec
		for _, lm := range db.Lemmas {
			if lm.Name == ln {
				found = lm
			}
		}
		if found == nil {
			fail("lemma:"+ln, "lemma "+ln+" not found in contract files")
			continue
		}
		units = append(units, GenerateLemma(w, found))
	}
	scratch, _ := os.MkdirTemp("", "govc-"+prop+"-")
	defer os.RemoveAll(scratch)
	// obligations that only the thorough tier checks (slow queries: a loaded machine would turn them into timeouts)
	if tier != "thorough" && len(pe.ThoroughOnly) > 0 {
		var deferred []string
		for _, u := range units {
			subs := pe.ThoroughOnly[u.Name]
			if len(subs) == 0 {
				continue
			}
			var keep []*Oblig
			for _, o := range u.Obligs {
				skip := false
				for _, sub := range subs {
					if strings.Contains(o.Name, sub) {
						skip = true
					}
				}
				if skip {
					deferred = append(deferred, o.Name)
				} else {
					keep = append(keep, o)
				}
			}
			u.Obligs = keep
		}
		if len(deferred) > 0 {
			res.Extra["deferred_to_thorough_tier"] = map[string]interface{}{"count": len(deferred), "obligations": deferred,
				"note": "not checked in this tier (queries that need more than the quick time limit); the thorough tier of this check discharges them"}
		}
	}
	SolveUnits(units, SolveOpts{TimeoutS: timeout, Scratch: scratch, Workers: 12})

	// known findings for this property, by unit
	kfByUnit := map[string][]KnownFinding{}
	for _, k := range kf.Findings {
		if k.Property == prop && k.Kind == "known" {
			kfByUnit[k.Unit] = append(kfByUnit[k.Unit], k)
		}
	}
	for _, u := range units {
		ur := unitReport{Unit: u.Name, SourceHash: u.Hash, SSAInstrs: u.SSAInstrs, Loops: u.Loops, Notes: u.Notes, Error: u.Err}
		if u.Err != "" {
			fail("unit:"+u.Name, "unit cannot be translated/verified on the current tree: "+firstLine(u.Err))
			res.Units = append(res.Units, ur)
			continue
		}
		var failing []*Oblig
		for _, o := range u.Obligs {
			if !ownsObligation(pe, u.Name, o.Name) {
				continue
			}
			if o.Status != "unsat" {
				failing = append(failing, o)
			}
		}
		final := u
		knownHit := map[string]KnownFinding{}
		if len(failing) > 0 && len(kfByUnit[u.Name]) > 0 {
			// all failing obligations listed? then prove the unit on the complement of the regions
			listed := true
			for _, o := range failing {
				found := false
				for _, k := range kfByUnit[u.Name] {
					for _, on := range k.Obligations {
						if on == o.Name {
							found = true
							knownHit[o.Name] = k
						}
					}
				}
				if !found {
					listed = false
				}
			}
			if listed {
				sp2 := *u.Spec
				for i, k := range kfByUnit[u.Name] {
					if k.Region == "" {
						continue
					}
					ex, err := ParseExpr("!(" + k.Region + ")")
					if err != nil {
						listed = false
						break
					}
					sp2.Requires = append(append([]Clause{}, sp2.Requires...), Clause{Label: fmt.Sprintf("known_finding_%d", i), E: ex, Src: "!(" + k.Region + ")"})
				}
				if listed {
					u2 := GenerateUnit(w, &sp2, opts)
					SolveUnits([]*UnitResult{u2}, SolveOpts{TimeoutS: timeout, Scratch: scratch, Workers: 12})
					final = u2
					if u2.Err != "" {
						fail("unit:"+u.Name, "unit fails to translate under known-finding regions: "+firstLine(u2.Err))
						continue
					}
				}
			}
		}
		for _, o := range final.Obligs {
			if !ownsObligation(pe, u.Name, o.Name) {
				continue
			}
			if o.Kind == "cover" {
				// informational reachability probes of the thorough tier
				res.SolverTime += o.Seconds
				coverTotal++
				switch o.Cover {
				case "unreachable":
					coverUnreach = append(coverUnreach, o.Name)
				case "reachable":
					coverReach++
				}
				continue
			}
			or := obligReport{Name: o.Name, Kind: o.Kind, Status: o.Status, Solver: o.Solver, Seconds: o.Seconds, Src: o.Src, Parts: len(o.Parts), Bounded: o.Bounded}
			res.SolverTime += o.Seconds
			if o.Bounded {
				res.Bounded++
				res.Obligs = append(res.Obligs, or)
				continue
			}
			res.Obligations++
			ur.Obligations++
			if o.Status == "unsat" {
				res.Discharged++
				ur.Discharged++
				res.BySolver[o.Solver]++
				if final != u {
					if _, wasFailing := knownHit[o.Name]; wasFailing {
						or.Note = "discharged on the complement of a known-finding region"
					}
				}
			} else {
				res.Violations++
				script := writeFailingScript(filepath.Join(evidenceDir(vd), "replays", prop), final, o)
				info := map[string]interface{}{
					"obligation": o.Name, "kind": o.Kind, "clause": o.Src, "status": o.Status, "solver": o.Solver,
					"solver_output": truncate(o.Output, 4000), "script": script, "unit": u.Name, "fail_part": o.FailPart,
				}
				replayed := tryReplay(vd, repo, prop, final, o, info)
				rp := writeReplay(vd, prop, o.Name, info)
				line := fmt.Sprintf("VIOLATION property=%s replay=%s", prop, rp)
				if !replayed {
					line += " no-failing-input-found"
				}
				res.Lines = append(res.Lines, line)
			}
			res.Obligs = append(res.Obligs, or)
		}
		if final != u {
			done := map[string]bool{}
			for _, o := range failing {
				k := knownHit[o.Name]
				if !done[k.What] {
					done[k.What] = true
					res.Known++
					res.Lines = append(res.Lines, fmt.Sprintf("KNOWN-FINDING: property=%s %s [%s, region: %s]", prop, k.What, o.Name, k.Region))
				}
			}
		}
		res.Units = append(res.Units, ur)
	}
	// enumerated (not deduced) side conditions, run against the real code
	var enumDone []interface{}
	for _, en := range pe.Enumerations {
		ok, info := runEnumeration(vd, repo, en)
		info["enumeration"] = en
		if !ok {
			res.Violations++
			info["obligation"] = "enum:" + en
			rp := writeReplay(vd, prop, "enum:"+en, info)
			line := fmt.Sprintf("VIOLATION property=%s replay=%s", prop, rp)
			if rep, _ := info["replayed"].(bool); !rep {
				line += " no-failing-input-found"
			}
			res.Lines = append(res.Lines, line)
		}
		enumDone = append(enumDone, map[string]interface{}{"enumeration": en, "ok": ok, "result": info["replay_result"]})
	}
	if len(enumDone) > 0 {
		res.Extra["enumerated_side_conditions"] = enumDone
	}
	// side lemmas proved in Lean (thorough tier): the file must still check
	if tier == "thorough" {
		var done []map[string]interface{}
		for _, lf := range pe.LeanLemmas {
			cmd := exec.Command("lean", filepath.Join(vd, lf))
			out, err := cmd.CombinedOutput()
			ok := err == nil
			done = append(done, map[string]interface{}{"file": lf, "checked": ok, "output": firstLine(string(out))})
			if !ok {
				fail("lean:"+lf, "the Lean proof of a side lemma no longer checks: "+firstLine(string(out)))
			}
		}
		if len(done) > 0 {
			res.Extra["lean_side_lemmas"] = done
		}
	}
	// callee contracts the units relied on: verified in this run (the callee is one of the units), trusted (stated, body not
	// verified anywhere), assumed (library model), or verified under another property's check
	{
		unitKeys := map[string]bool{}
		for _, u := range units {
			unitKeys[u.Key] = true
		}
		type cc struct {
			Contract string `json:"contract"`
			Status   string `json:"status"`
		}
		seen := map[string]bool{}
		var list []cc
		for _, u := range units {
			if u.Exec == nil {
				continue
			}
			for k, sp := range u.Exec.usedSpecs {
				if seen[k] {
					continue
				}
				seen[k] = true
				st := "NOT VERIFIED BY ANY CHECK: the contract is used as an assumption"
				if owners := allUnitOwners[unitShortName(k)]; len(owners) > 0 {
					st = "verified by the check of " + strings.Join(owners, ", ") + " (not re-verified in this run)"
				}
				switch {
				case unitKeys[k]:
					st = "verified in this run"
				case sp.Extern && len(allUnitOwners[unitShortName(k)]) > 0:
					st = "library function verified by the check of " + strings.Join(allUnitOwners[unitShortName(k)], ", ")
				case sp.Extern:
					st = "assumed (library model in /verif/models)"
				case sp.Trusted:
					st = "TRUSTED: stated, the body is not verified by any check"
				}
				list = append(list, cc{unitShortName(k), st})
			}
		}
		sort.Slice(list, func(a, b int) bool { return list[a].Contract < list[b].Contract })
		res.Extra["callee_contracts_relied_on"] = list
	}
	if coverTotal > 0 {
		res.Extra["block_cover_probes"] = map[string]interface{}{"probed": coverTotal, "proved_reachable": coverReach, "proved_unreachable": coverUnreach,
			"note": "blocks of the units that cannot be reached under the contracts' preconditions (vacuous obligations behind them): expected for error paths the preconditions exclude; anything else is a hole in a precondition"}
		if verbose {
			for _, u := range coverUnreach {
				fmt.Println("unreachable:", u)
			}
		}
	}
	if res.Obligations < pe.MinObligations {
		fail("vacuity:obligation-count", fmt.Sprintf("only %d obligations generated, committed minimum is %d (front-end failure?)", res.Obligations, pe.MinObligations))
	}
	// the slowest obligations (a slow query is the one that a loaded machine turns into a timeout)
	{
		idx := make([]int, len(res.Obligs))
		for i := range idx {
			idx[i] = i
		}
		sort.Slice(idx, func(a, b int) bool { return res.Obligs[idx[a]].Seconds > res.Obligs[idx[b]].Seconds })
		var slow []map[string]interface{}
		for k := 0; k < len(idx) && k < 8; k++ {
			o := res.Obligs[idx[k]]
			slow = append(slow, map[string]interface{}{"obligation": o.Name, "seconds": o.Seconds, "backend": o.Solver, "parts": o.Parts})
		}
		res.Extra["slowest_obligations"] = slow
		if verbose {
			for _, sl := range slow {
				fmt.Printf("slow: %.2fs %v (%v)\n", sl["seconds"], sl["obligation"], sl["backend"])
			}
		}
	}
	// samples: a few obligations written out
	for i, o := range res.Obligs {
		if i%(len(res.Obligs)/5+1) == 0 && len(res.Samples) < 6 {
			res.Samples = append(res.Samples, map[string]interface{}{"obligation": o.Name, "kind": o.Kind, "clause": o.Src, "status": o.Status, "backend": o.Solver, "seconds": o.Seconds})
		}
	}
	res.Assumptions = append(res.Assumptions, pe.Assumptions...)
	res.Assumptions = append(res.Assumptions, baseAssumptions()...)
	for _, f := range db.Files {
		if strings.HasSuffix(f, ".spec") {
			res.Assumptions = append(res.Assumptions, "assumed contracts of dependencies in "+f+": "+strings.Join(externNames(db, f), ", "))
		}
	}
	res.Trusted = trustedBase()
	return res
}

func externNames(db *SpecDB, file string) []string {
	var out []string
	for _, f := range db.Funcs {
		if f.Extern && f.File == file {
			out = append(out, f.Name)
		}
	}
	sort.Strings(out)
	return out
}

func baseAssumptions() []string {
	return []string{
		"A-MEM: object sizes/lengths are at most 2^47; Go int treated as mathematical with explicit overflow obligations (arith:ovf)",
		"A-FLOAT: floats are opaque IEEE bit patterns; math.Float*bits/frombits are inverse bit casts; float arithmetic/comparison uninterpreted",
		"A-CLOSED: interface values range over the implementations declared in the repo's non-test packages",
		"sequential semantics per unit: goroutine interleavings, channel blocking and scheduling are not modelled (go statements start nothing)",
		"sum unfolding/extensionality/monotonicity of the `sum` spec construct are meta-theorems of the engine (induction), not SMT-checked",
		"type safety background invariant: every heap cell holds a value of its Go type; stored pointers are allocated (<= alloc)",
		"logging (klog) and error-message formatting have no effect on modelled state",
	}
}

func trustedBase() []string {
	return []string{
		"golang.org/x/tools v0.29.0 go/packages + go/ssa translation of /repo's working tree (build tag verif)",
		"govc VC generator (this repository: /verif/govc): SSA semantics, heap model (Burstall-Bornat components), contract language",
		"SMT solvers: z3 5.1.0 (z3-new), z3 4.8.12, cvc5 1.0.3 (an obligation is discharged when any of them answers unsat)",
		"assumed models of dependencies: /verif/models/*.spec and the native models of util.Decode/binary.Read, fmt.Errorf, klog, copy/append/make",
	}
}

func firstLine(s string) string {
	if i := strings.Index(s, "\n"); i >= 0 {
		return s[:i]
	}
	return s
}

func truncate(s string, n int) string {
	if len(s) > n {
		return s[:n] + "...[truncated]"
	}
	return s
}

func writeReplay(vd, prop, name string, info map[string]interface{}) string {
	dir := filepath.Join(evidenceDir(vd), "replays", prop)
	_ = os.MkdirAll(dir, 0o755)
	fn := filepath.Join(dir, nameSan.ReplaceAllString(name, "_")+".json")
	data, _ := json.MarshalIndent(info, "", " ")
	_ = os.WriteFile(fn, data, 0o644)
	return fn
}

func writeEvidence(vd string, r *propResult) {
	_ = os.MkdirAll(evidenceDir(vd), 0o755)
	cov := map[string]interface{}{
		"obligations":        r.Obligations,
		"discharged":         r.Discharged,
		"checker_cmd":        r.Cmd,
		"trusted_base":       r.Trusted,
		"samples":            r.Samples,
		"units":              r.Units,
		"obligation_results": r.Obligs,
		"bounded_not_proved": r.Bounded,
		"solver_seconds":     r.SolverTime,
		"discharged_by":      r.BySolver,
		"known_findings":     r.Known,
		"explanation": "every obligation generated from the current /repo source for the functions under contract " +
			"(safety of each potentially failing operation, callee preconditions, postconditions per return path, loop invariants init/step, " +
			"termination measures, frames) discharged by an SMT back end; loops are cut by inductive invariants, not unrolled",
	}
	for k, v := range r.Extra {
		cov[k] = v
	}
	if len(r.Samples) == 0 {
		cov["samples"] = []interface{}{"no obligation could be generated"}
	}
	ev := map[string]interface{}{
		"property_id": r.Prop,
		"tier":        r.Tier,
		"seed":        r.Seed,
		"level":       "proof",
		"coverage":    cov,
		"assumptions": r.Assumptions,
		"wall_s":      r.WallS,
		"violations":  r.Violations,
	}
	data, _ := json.MarshalIndent(ev, "", " ")
	_ = os.WriteFile(filepath.Join(evidenceDir(vd), r.Prop+".json"), data, 0o644)
}

func cmdReplay(args []string) int {
	if len(args) < 1 {
		fmt.Println("usage: govc replay <replay.json>")
		return 2
	}
	var info map[string]interface{}
	if err := loadJSON(args[0], &info); err != nil {
		fmt.Println("cannot read replay file:", err)
		return 2
	}
	data, _ := json.MarshalIndent(info, "", " ")
	fmt.Println(string(data))
	if s, ok := info["script"].(string); ok {
		fmt.Println("re-running solver on", s)
		r := Solve(func(bool) string { b, _ := os.ReadFile(s); return string(b) }, 30, os.TempDir(), "replay", "z3-new")
		fmt.Println("solver:", r.Solver, "status:", r.Status)
	}
	return 0
}
