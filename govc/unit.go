package govc

// Verification of one unit (function + contract): dry pass (loop write sets),
// real pass (obligations), discharge.

import (
	"crypto/sha256"
	"encoding/hex"
	"fmt"
	"go/types"
	"os"
	"path/filepath"
	"regexp"
	"runtime/debug"
	"sort"
	"strings"
	"sync"
	"time"

	"golang.org/x/tools/go/ssa"
)

type UnitResult struct {
	Key       string
	Name      string
	Hash      string
	SSAInstrs int
	Obligs    []*Oblig
	Err       string
	Notes     []string
	Loops     int
	TermLoops []string
	NoTerm    []string
	Exec      *Exec
	Spec      *FuncSpec
	GenSecs   float64
}

func (w *World) shapes() *Shapes {
	sh := &Shapes{Ghost: map[string][]GhostField{}, Open: map[string]map[string]bool{}}
	if w.Specs == nil {
		return sh
	}
	for _, g := range w.Specs.Opens {
		env := &SpecEnv{X: &Exec{W: w, C: NewCtx(), Sh: sh}}
		var T types.Type
		func() {
			defer func() {
				if r := recover(); r != nil {
					T = nil
				}
			}()
			T = env.resolveType(g.Type)
		}()
		if T == nil {
			continue
		}
		if n, ok := types.Unalias(T).(*types.Named); ok {
			if sh.Open[qualName(n)] == nil {
				sh.Open[qualName(n)] = map[string]bool{}
			}
			sh.Open[qualName(n)][g.Name] = true
		}
	}
	// ghost fields
	for _, g := range w.Specs.Ghosts {
		env := &SpecEnv{X: &Exec{W: w, C: NewCtx(), Sh: sh}}
		if g.Pkg != "" {
			env.Pkg = w.SSAPkgs[g.Pkg]
		}
		var T types.Type
		func() {
			defer func() {
				if r := recover(); r != nil {
					T = nil
				}
			}()
			T = env.resolveType(g.Type)
		}()
		if T == nil {
			continue
		}
		n, ok := types.Unalias(T).(*types.Named)
		if !ok {
			continue
		}
		var gt types.Type
		func() {
			defer func() {
				if r := recover(); r != nil {
					gt = nil
				}
			}()
			gt = env.resolveParamType(g.GoTyp)
		}()
		if gt == nil {
			continue
		}
		sh.Ghost[qualName(n)] = append(sh.Ghost[qualName(n)], GhostField{Name: g.Name, Type: gt})
	}
	return sh
}

func unitShortName(key string) string {
	return strings.TrimPrefix(strings.TrimPrefix(key, RepoModule+"/pkg/"), RepoModule+"/")
}

func (w *World) ResolveSpecFunc(sp *FuncSpec) *ssa.Function {
	if sp.Extern {
		// a library function given by its full name "import/path.Func": it can be verified against its assumed
		// contract when its package is loaded with bodies (container/heap)
		if i := strings.LastIndex(sp.Name, "."); i > 0 && !strings.HasPrefix(sp.Name, "(") {
			if p := w.SSAPkgs[sp.Name[:i]]; p != nil {
				if fn := p.Func(sp.Name[i+1:]); fn != nil && len(fn.Blocks) > 0 {
					return fn
				}
			}
		}
		return nil
	}
	return w.FindFunc(sp.Pkg, sp.Recv, sp.Name)
}

type UnitOpts struct {
	CheckLocks  bool
	CoverBlocks bool
	CheckFrames bool
	Overflow    bool // emit arith:ovf obligations for signed arithmetic (default: ints are mathematical, A-INT)
}

// GenerateUnit runs the VC generator for one contract.
func GenerateUnit(w *World, sp *FuncSpec, opts UnitOpts) (res *UnitResult) {
	start := time.Now()
	res = &UnitResult{Key: sp.Key(), Name: unitShortName(sp.Key()), Spec: sp}
	fn := w.ResolveSpecFunc(sp)
	if fn == nil {
		res.Err = "contract does not match any function in the current tree: " + sp.Key()
		return
	}
	res.Hash, res.SSAInstrs = w.SourceHash(fn)
	x := NewExec(w, fn, sp)
	x.unitName = res.Name
	x.inlineOnly = map[string]bool{}
	if sp != nil {
		for _, n := range sp.InlineCallees {
			for k, f := range w.Specs.Funcs {
				if f.Name == n {
					x.inlineOnly[k] = true
				}
			}
		}
	}
	x.coverBlocks = opts.CoverBlocks
	x.checkLocks = opts.CheckLocks
	x.checkFrames = opts.CheckFrames
	x.noOverflow = !opts.Overflow
	x.loopWrites = map[string]map[string]bool{}
	x.loopAddrs = map[string]map[string]map[uint64]bool{}
	x.loopThreshold = map[string]int{}
	res.Exec = x
	defer func() {
		res.GenSecs = time.Since(start).Seconds()
		if r := recover(); r != nil {
			switch e := r.(type) {
			case unsupportedErr:
				res.Err = e.Error()
			case specError:
				res.Err = e.Error()
			case error:
				res.Err = fmt.Sprintf("internal: %v\n%s", e, debug.Stack())
			default:
				res.Err = fmt.Sprintf("internal: %v\n%s", r, debug.Stack())
			}
		}
	}()
	// pass 1 (dry): discover what each loop writes
	if hasLoops(fn, w, map[*ssa.Function]bool{}) {
		x.dry = true
		x.runUnit()
		x.dry = false
		x.C = NewCtx()
		x.reset()
	}
	x.runUnit()
	// cover probes (thorough tier): one per block of the unit, over all its visits
	for _, b := range x.coverOrder {
		pos := ""
		for _, ins := range b.Instrs {
			if ins.Pos().IsValid() && w.Fset != nil {
				pp := w.Fset.Position(ins.Pos())
				pos = fmt.Sprintf("%s:%d", filepath.Base(pp.Filename), pp.Line)
				break
			}
		}
		x.obligs = append(x.obligs, &Oblig{Name: fmt.Sprintf("%s/cover[b%d %s %s]", x.unitName, b.Index, b.Comment, pos), Kind: "cover", Unit: x.unitName,
			Goal: x.C.Not(x.C.Or(x.coverPCs[b]...)), NAssume: len(x.assumes), Self: -1, Src: "block is reachable (expected: sat)"})
	}
	// a callpre clause that no call site used would be a silent hole: the named callee is never called here
	if sp != nil {
		for name := range sp.CallPre {
			if !x.callpreUsed[sp.Key()+"|"+name] {
				res.Err = "callpre names a callee that this function never calls under a contract: " + name
				return
			}
		}
		for name := range sp.CallPost {
			if !x.callpreUsed[sp.Key()+"|post|"+name] {
				res.Err = "callpost names a callee that this function never calls under a contract: " + name
				return
			}
		}
	}
	if os.Getenv("GOVC_DEBUG") != "" {
		for k, m := range x.loopWrites {
			fmt.Println("loop", k, "writes:", sortedKeys(m))
		}
	}
	res.Obligs = x.obligs
	res.Notes = x.notes
	res.Loops = x.loopsSeen
	res.TermLoops = x.termProved
	return
}

func hasLoops(fn *ssa.Function, w *World, seen map[*ssa.Function]bool) bool {
	// conservative: any function with a back edge reachable by inlining
	if seen[fn] {
		return false
	}
	seen[fn] = true
	for _, b := range fn.Blocks {
		for _, s := range b.Succs {
			if backEdge(b, s) {
				return true
			}
		}
	}
	for _, b := range fn.Blocks {
		for _, ins := range b.Instrs {
			switch c := ins.(type) {
			case ssa.CallInstruction:
				if cal := c.Common().StaticCallee(); cal != nil && len(cal.Blocks) > 0 {
					if hasLoops(cal, w, seen) {
						return true
					}
				}
				if c.Common().IsInvoke() {
					return true // dispatch may reach loops; be conservative
				}
			case *ssa.MakeClosure:
				if f, ok := c.Fn.(*ssa.Function); ok && hasLoops(f, w, seen) {
					return true
				}
			}
		}
	}
	return false
}

func (x *Exec) globalAddr(name string) *Term {
	id, ok := x.globalIDs[name]
	if !ok {
		id = len(x.globalIDs) + 1
		x.globalIDs[name] = id
	}
	return x.C.Int(int64(id))
}

func (x *Exec) runUnit() {
	c := x.C
	fn := x.Unit
	sp := x.Spec
	x.globalIDs = map[string]int{}
	x.freshAddrs = map[int]bool{}
	x.boxed = nil
	x.iters = nil
	st := &State{PC: c.True(), Heap: map[string]*Term{}, Cells: map[string]Val{}, Alloc: c.Const("alloc0", SInt)}
	x.assumeGlobal(c.Le(c.Int(64), st.Alloc)) // room for package-level objects
	var args []Val
	for i, p := range fn.Params {
		pname := p.Name()
		if sp != nil {
			if n := specParamName(sp, fn, i); n != "" {
				pname = n
			}
		}
		if dt, ok := sp.DynTypes[pname]; ok && types.IsInterface(p.Type()) {
			// an interface parameter with a fixed dynamic type for this unit
			denv := &SpecEnv{X: x, Vars: map[string]SV{}, Cur: st, Old: st, Pkg: fn.Pkg}
			T := denv.resolveType(dt)
			inner := x.symbolicParam(st, p.Name()+"!dyn", T)
			var payload *Term
			switch iv := inner.(type) {
			case VPtr:
				payload = x.boxPtr(iv)
			case VInt:
				payload = iv.T
			default:
				panic(unsupported("dyntype of " + dt))
			}
			args = append(args, VIface{c.Int(int64(x.W.TypeTag(T))), payload})
			continue
		}
		v := x.symbolicParam(st, p.Name(), p.Type())
		args = append(args, v)
	}
	var bindings []Val
	for _, fv := range fn.FreeVars {
		bindings = append(bindings, x.symbolicParam(st, "fv!"+fv.Name(), fv.Type()))
	}
	x.entry = st.Clone()
	x.entryArgs = args
	// requires
	fr0 := &Frame{fn: fn, env: map[ssa.Value]Val{}, spec: sp, entrySt: x.entry, names: map[string]ssa.Value{}}
	for i, p := range fn.Params {
		fr0.env[p] = args[i]
	}
	for i, fv := range fn.FreeVars {
		fr0.env[fv] = bindings[i]
	}
	env := x.frameEnv(fr0, st)
	x.mods = nil
	for _, r := range sp.Requires {
		x.assume(st, x.evalBool(r.E, env))
	}
	x.mods = x.evalModSet(sp, env)
	// vacuity probe: the precondition must be satisfiable
	if !x.dry {
		o := &Oblig{Name: x.unitName + "/vacuity[requires-sat]", Kind: "vacuity", Unit: x.unitName,
			Goal: c.False(), NAssume: len(x.assumes), Self: -1, Src: "requires ∧ type invariants is satisfiable (expected: sat)"}
		x.obligs = append(x.obligs, o)
	}
	vals, out := x.execFunc(fn, args, bindings, st, "", true)
	if out == nil {
		x.note("unit has no normally returning path")
		return
	}
	// vacuity probe: some return must be reachable under everything assumed on the way
	if !x.dry {
		var pcs []*Term
		for _, r := range x.unitRets {
			pcs = append(pcs, r.st.PC)
		}
		x.obligs = append(x.obligs, &Oblig{Name: x.unitName + "/vacuity[exit-reachable]", Kind: "vacuity", Unit: x.unitName,
			Goal: c.Not(c.Or(pcs...)), NAssume: len(x.assumes), Self: -1, Src: "some return is reachable with all assumptions made on the way (expected: sat)"})
	}
	// ensures, checked return path by return path (parts of one obligation per clause)
	_ = vals
	for _, e := range sp.Ensures {
		if strings.HasPrefix(e.Label, "assumed_") {
			// a postcondition that is stated but NOT proved in this unit (a mathematical consequence of the proved ones that the
			// solvers cannot derive, e.g. by induction); it is listed as an assumption in the evidence
			x.note("postcondition " + e.Label + " is assumed, not proved: " + e.Src)
			continue
		}
		x.curSite = ""
		var parts []*Term
		var later []*Term
		for _, r := range x.unitRets {
			if isFalse(r.st.PC) {
				continue
			}
			penv := x.frameEnv(fr0, r.st)
			penv.Old = x.entry
			for i := 0; i < fn.Signature.Results().Len(); i++ {
				if i < len(sp.Results) {
					penv.Vars[sp.Results[i].Name] = SV{V: r.vals[i], T: fn.Signature.Results().At(i).Type()}
				}
			}
			t := x.evalBool(e.E, penv)
			// a conjunction is proved conjunct by conjunct (smaller queries, same meaning)
			for _, cj := range conjuncts(t) {
				g := c.Implies(r.st.PC, cj)
				if !isTrue(g) {
					parts = append(parts, g)
				}
			}
			later = append(later, c.Implies(r.st.PC, t))
		}
		o := x.obligeParts("post", e.Label, "", e.Src, parts)
		// assert-then-assume: later clauses of the same contract may use this one
		if o != nil {
			for _, t := range later {
				x.assumes = append(x.assumes, assumption{T: t, From: o})
			}
		}
	}
	// replay bindings
	x.replayTerms = nil
	for _, kv := range sp.ReplayKV {
		func() {
			defer func() { recover() }()
			ex, err := ParseExpr(kv[1])
			if err != nil {
				return
			}
			renv := x.frameEnv(fr0, x.entry)
			sv := renv.eval(ex)
			for i, t := range x.Sh.Flatten(sv.V) {
				if !t.open {
					x.replayTerms = append(x.replayTerms, replayTerm{fmt.Sprintf("%s.%d", kv[0], i), t})
				}
			}
		}()
	}
}

type replayTerm struct {
	Name string
	T    *Term
}

// symbolicParam creates the symbolic input for a parameter / free variable.
func (x *Exec) symbolicParam(st *State, name string, t types.Type) Val {
	if p, ok := types.Unalias(t).Underlying().(*types.Pointer); ok {
		el := p.Elem()
		if structOf(el) == nil || isOpaqueInt(el) {
			// pointer to a non-struct: a cell owned by the caller
			key := "param:" + name
			inner := x.symbolic("in!"+name+"!cell", el)
			x.assume(st, x.typeInv(st, inner, el))
			st.Cells[key] = inner
			return VPtr{Kind: PCell, Glob: key, Elem: el}
		}
	}
	v := x.symbolic("in!"+name, t)
	x.assume(st, x.typeInv(st, v, t))
	return v
}

// ---------------- solving ----------------

type SolveOpts struct {
	TimeoutS int
	Scratch  string
	Workers  int
	Second   bool // also require a second solver (thorough)
}

// ubiquitous symbols do not link an assumption to a goal in the relevance filter
func ubiquitous(sym string) bool {
	switch sym {
	case "alloc0", "slot", "dyntype", "slen", "sat":
		return true
	}
	return strings.HasPrefix(sym, "in!") || strings.HasPrefix(sym, "alloc!")
}

func (x *Exec) scriptFor(o *Oblig, part int, forCVC5 bool, withModel bool) string {
	return x.scriptForMode(o, part, forCVC5, withModel, false)
}

// scriptForMode: with relevant=true only assumptions connected to the goal through shared
// (non-ubiquitous) symbols are kept (closure). Dropping assumptions is sound; it is used as a
// second attempt for obligations whose full context overwhelms the solvers.
func (x *Exec) scriptForMode(o *Oblig, part int, forCVC5 bool, withModel bool, relevant bool) string {
	c := x.C
	goal := o.Goal
	if len(o.Parts) > 0 {
		goal = o.Parts[part]
	}
	if relevant {
		var cand []*Term
		for i := 0; i < o.NAssume && i < len(x.assumes); i++ {
			if x.assumes[i].From != o {
				cand = append(cand, x.assumes[i].T)
			}
		}
		syms := make([]map[string]bool, len(cand))
		for i, t := range cand {
			syms[i] = c.symbolsOf(t, nil)
		}
		rel := map[string]bool{}
		for k := range c.symbolsOf(goal, nil) {
			if !ubiquitous(k) {
				rel[k] = true
			}
		}
		keep := make([]bool, len(cand))
		for changed := true; changed; {
			changed = false
			for i := range cand {
				if keep[i] {
					continue
				}
				hit := false
				for k := range syms[i] {
					if rel[k] {
						hit = true
						break
					}
				}
				if hit {
					keep[i] = true
					changed = true
					for k := range syms[i] {
						if !ubiquitous(k) {
							rel[k] = true
						}
					}
				}
			}
		}
		var asserts []*Term
		for i, t := range cand {
			if keep[i] {
				asserts = append(asserts, t)
			}
		}
		asserts = append(asserts, c.Not(goal))
		return c.Script(asserts, nil, forCVC5)
	}
	var asserts []*Term
	for i := 0; i < o.NAssume && i < len(x.assumes); i++ {
		a := x.assumes[i]
		if a.From == o {
			continue
		}
		asserts = append(asserts, a.T)
	}
	asserts = append(asserts, c.Not(goal))
	var gv []*Term
	if withModel {
		for _, rt := range x.replayTerms {
			gv = append(gv, rt.T)
		}
	}
	return c.Script(asserts, gv, forCVC5)
}

// shortTag keeps scratch file names short and unique: long obligation names are cut and given a hash of the
// full name (two obligations that differ only after the cut must not share a script file).
func shortTag(tag string) string {
	if len(tag) <= 140 {
		return tag
	}
	h := sha256.Sum256([]byte(tag))
	return tag[:140] + "." + hex.EncodeToString(h[:4])
}

var nameSan = regexp.MustCompile(`[^A-Za-z0-9_.-]+`)

func SolveUnits(units []*UnitResult, opts SolveOpts) {
	type job struct {
		u    *UnitResult
		o    *Oblig
		part int
	}
	type partRes struct {
		r SolveResult
	}
	var jobs []job
	results := map[*Oblig][]SolveResult{}
	for _, u := range units {
		for _, o := range u.Obligs {
			n := 1
			if len(o.Parts) > 0 {
				n = len(o.Parts)
			}
			results[o] = make([]SolveResult, n)
			if o.Trivial {
				continue
			}
			for k := 0; k < n; k++ {
				jobs = append(jobs, job{u, o, k})
			}
		}
	}
	ch := make(chan job)
	var wg sync.WaitGroup
	// term construction is not thread-safe: scripts are generated under a per-unit lock
	locks := map[*UnitResult]*sync.Mutex{}
	for _, u := range units {
		locks[u] = &sync.Mutex{}
	}
	var mu sync.Mutex
	for i := 0; i < opts.Workers; i++ {
		wg.Add(1)
		go func() {
			defer wg.Done()
			for j := range ch {
				o := j.o
				tag := nameSan.ReplaceAllString(o.Name, "_")
				tag = shortTag(tag)
				if len(o.Parts) > 0 {
					tag += fmt.Sprintf(".p%d", j.part)
				}
				mk := func(cvc5 bool) string {
					locks[j.u].Lock()
					defer locks[j.u].Unlock()
					return j.u.Exec.scriptFor(o, j.part, cvc5, len(j.u.Exec.replayTerms) > 0)
				}
				tmo := opts.TimeoutS
				if (o.Kind == "vacuity" || o.Kind == "cover") && tmo > 3 {
					// a contradiction is found quickly or not at all; a satisfiable state mostly ends in `unknown`
					tmo = 3
				}
				r := Solve(mk, tmo, opts.Scratch, tag, "")
				if r.Status != "unsat" && r.Status != "sat" && o.Kind != "vacuity" && o.Kind != "cover" {
					// second attempt: only the assumptions relevant to the goal (sound: fewer assumptions)
					mk2 := func(cvc5 bool) string {
						locks[j.u].Lock()
						defer locks[j.u].Unlock()
						return j.u.Exec.scriptForMode(o, j.part, cvc5, false, true)
					}
					r2 := Solve(mk2, opts.TimeoutS, opts.Scratch, tag+".rel", "")
					if r2.Status == "unsat" {
						r2.Solver += " (relevant assumptions only)"
						r2.Seconds += r.Seconds
						r = r2
					}
				}
				mu.Lock()
				results[o][j.part] = r
				mu.Unlock()
			}
		}()
	}
	for _, j := range jobs {
		ch <- j
	}
	close(ch)
	wg.Wait()
	// third attempt, machine quiet: the few jobs that are still undecided (timeout/unknown, never a sat answer)
	// are retried one at a time with four times the time limit. A loaded machine must not turn a slow proof
	// into an alarm; a genuine failure stays a failure.
	var retry []job
	for _, j := range jobs {
		r := results[j.o][j.part]
		if r.Status != "unsat" && r.Status != "sat" && j.o.Kind != "vacuity" && j.o.Kind != "cover" {
			retry = append(retry, j)
		}
	}
	if len(retry) > 0 && len(retry) <= 12 {
		for _, j := range retry {
			o := j.o
			tag := nameSan.ReplaceAllString(o.Name, "_")
			tag = shortTag(tag)
			if len(o.Parts) > 0 {
				tag += fmt.Sprintf(".p%d", j.part)
			}
			mk := func(cvc5 bool) string {
				return j.u.Exec.scriptFor(o, j.part, cvc5, len(j.u.Exec.replayTerms) > 0)
			}
			r3 := Solve(mk, opts.TimeoutS*4, opts.Scratch, tag+".slow", "")
			if r3.Status == "unsat" || r3.Status == "sat" {
				r3.Solver += " (retried alone, 4x time limit)"
				r3.Seconds += results[o][j.part].Seconds
				results[o][j.part] = r3
			}
		}
	}
	for _, u := range units {
		for _, o := range u.Obligs {
			if o.Trivial {
				o.Status, o.Solver = "unsat", "simplifier"
				continue
			}
			rs := results[o]
			// combine parts: all unsat => unsat; any sat => sat; else worst
			o.Status = "unsat"
			o.FailPart = -1
			solvers := map[string]bool{}
			for k, r := range rs {
				o.Seconds += r.Seconds
				solvers[r.Solver] = true
				if r.Status == "unsat" {
					continue
				}
				if r.Status == "sat" || o.Status == "unsat" {
					if o.Status != "sat" {
						o.Status = r.Status
						o.Output = r.Output
						o.FailPart = k
					}
				}
			}
			o.Solver = strings.Join(sortedKeys(solvers), "+")
			if o.Kind == "cover" {
				// informational: unsat means the block cannot be reached under the contract
				switch o.Status {
				case "unsat":
					o.Cover = "unreachable"
				case "sat":
					o.Cover = "reachable"
				default:
					o.Cover = "undecided"
				}
				o.Status = "unsat"
				continue
			}
			if o.Kind == "vacuity" {
				// expected sat
				switch o.Status {
				case "sat":
					o.Status = "unsat" // discharged: precondition is satisfiable
				case "unsat":
					if o.Pre != nil {
						// the path may simply be infeasible: then the state before the call is contradictory too
						pre := o.Pre
						mkp := func(cvc5 bool) string { return u.Exec.scriptFor(pre, 0, cvc5, false) }
						ptag := nameSan.ReplaceAllString(o.Name, "_")
						ptag = shortTag(ptag)
						rp := Solve(mkp, 3, opts.Scratch, ptag+".before", "")
						if rp.Status == "unsat" {
							o.Solver += " (infeasible path: the state before the call is unreachable as well)"
							o.Status = "unsat"
							break
						}
					}
					o.Status = "sat"
					o.Output = "precondition is contradictory (vacuous contract)\n" + o.Output
				default:
					// undecided vacuity probe: not a failure of the code
					o.Solver += " (vacuity undecided: " + o.Status + ")"
					o.Status = "unsat"
				}
			}
		}
	}
}

func writeFailingScript(dir string, u *UnitResult, o *Oblig) string {
	_ = os.MkdirAll(dir, 0o755)
	fn := filepath.Join(dir, nameSan.ReplaceAllString(o.Name, "_")+".smt2")
	part := o.FailPart
	if part < 0 {
		part = 0
	}
	_ = os.WriteFile(fn, []byte(u.Exec.scriptFor(o, part, false, true)), 0o644)
	return fn
}

func sortObligs(os []*Oblig) {
	sort.SliceStable(os, func(i, j int) bool { return os[i].Name < os[j].Name })
}

func conjuncts(t *Term) []*Term {
	if t.op == "and" && len(t.vars) == 0 {
		var out []*Term
		for _, a := range t.args {
			out = append(out, conjuncts(a)...)
		}
		return out
	}
	return []*Term{t}
}

// GenerateLemma: a stand-alone lemma (no heap, no code): its body, universally
// quantified over its integer/boolean variables, is one obligation.
func GenerateLemma(w *World, lm *LemmaSpec) (res *UnitResult) {
	res = &UnitResult{Key: "lemma:" + lm.Name, Name: "lemma:" + lm.Name}
	x := &Exec{W: w, C: NewCtx(), Sh: w.shapes()}
	x.reset()
	x.unitName = res.Name
	x.loopWrites = map[string]map[string]bool{}
	x.loopAddrs = map[string]map[string]map[uint64]bool{}
	x.loopThreshold = map[string]int{}
	x.globalIDs = map[string]int{}
	res.Exec = x
	defer func() {
		if r := recover(); r != nil {
			res.Err = fmt.Sprintf("lemma %s: %v", lm.Name, r)
		}
	}()
	st := &State{PC: x.C.True(), Heap: map[string]*Term{}, Cells: map[string]Val{}, Alloc: x.C.Const("alloc0", SInt)}
	x.entry = st
	env := &SpecEnv{X: x, Vars: map[string]SV{}, Cur: st, Old: st}
	if lm.Pkg != "" {
		env.Pkg = w.SSAPkgs[lm.Pkg]
	}
	for _, v := range lm.Vars {
		switch v.Type {
		case "bool":
			env.Vars[v.Name] = SV{VBool{x.C.Const("lv!"+v.Name, SBool)}, tBool}
		case "int", "":
			env.Vars[v.Name] = SV{VInt{x.C.Const("lv!"+v.Name, SInt)}, tInt}
		default:
			// a typed lemma variable (slice, interface, pointer...): an arbitrary value of that type
			T := env.resolveType(v.Type)
			val := x.symbolic("lv!"+v.Name, T)
			x.assume(st, x.typeInv(st, val, T))
			env.Vars[v.Name] = SV{val, T}
		}
	}
	t := env.evalBool(lm.Body)
	x.oblige(st, "lemma", lm.Name, "", lm.Src, t)
	res.Obligs = x.obligs
	return
}
