package govc

// Symbolic values and the heap model (DESIGN §3.3, Appendix A).

import (
	"fmt"
	"go/types"
	"sort"
	"strings"
)

type Val interface{}

type VInt struct{ T *Term }  // ints, struct pointers, strings (ids), floats (bit patterns), maps, funcs, chans, time.Time
type VBool struct{ T *Term } //
type VSlice struct{ Arr, Off, Len, Cap *Term }
type VIface struct{ Tag, Val *Term }
type VStruct struct{ F []Val } // by-value struct or tuple

type PtrKind int

const (
	PField  PtrKind = iota // pointer to a non-struct field of a heap struct
	PCell                  // pointer to a local cell (Alloc of non-struct, non-array)
	PElem                  // pointer to a slice/array element
	PArray                 // pointer to a whole array (Alloc of [N]T)
	PGlobal                // pointer to a package-level variable
)

// VPtr is a translation-time pointer descriptor (never stored in the heap).
type VPtr struct {
	Kind  PtrKind
	Obj   *Term        // PField: object address
	Owner *types.Named // PField: struct type declaring the field (component owner)
	OwnS  string       // PField: component owner name
	Field int          // PField: field index in Owner's struct
	Cell  int          // PCell: cell id
	Arr   *Term        // PElem/PArray: array id
	Idx   *Term        // PElem: absolute index in the array
	N     int64        // PArray: length
	Elem  types.Type   // PElem/PArray: element type; PCell: cell type; PField: field type
	Glob  string       // PGlobal: name
}

// VFunc is a function value known at translation time (closure or function).
type VFunc struct {
	Fn       interface{} // *ssa.Function
	Bindings []Val
}

type Leaf struct {
	Suffix string
	Sort   Sort
	Type   types.Type // Go type of the leaf (for range invariants)
	Role   string     // "", "arr", "off", "len", "cap", "tag", "val"
}

// special external struct types that are modelled as a single Int
var opaqueIntTypes = map[string]bool{
	"time.Time": true,
}

func isOpaqueInt(t types.Type) bool {
	if n, ok := t.(*types.Named); ok {
		return opaqueIntTypes[qualName(n)]
	}
	return false
}

func qualName(n *types.Named) string {
	if n.Obj().Pkg() == nil {
		return n.Obj().Name()
	}
	p := n.Obj().Pkg().Path()
	p = strings.TrimPrefix(p, RepoModule+"/pkg/")
	p = strings.TrimPrefix(p, RepoModule+"/")
	return p + "." + n.Obj().Name()
}

func typeName(t types.Type) string {
	switch t := t.(type) {
	case *types.Named:
		return qualName(t)
	case *types.Pointer:
		return "*" + typeName(t.Elem())
	case *types.Slice:
		return "[]" + typeName(t.Elem())
	case *types.Map:
		return "map[" + typeName(t.Key()) + "]" + typeName(t.Elem())
	case *types.Alias:
		return typeName(types.Unalias(t))
	case *types.Basic:
		// byte and uint8 (rune and int32) are the same type: one component for both spellings
		switch t.Kind() {
		case types.Uint8:
			return "byte"
		case types.Int32:
			return "int32"
		}
	}
	s := types.TypeString(t, func(p *types.Package) string { return p.Name() })
	return s
}

// structOf returns the struct underlying t (after Named), or nil.
func structOf(t types.Type) *types.Struct {
	s, _ := t.Underlying().(*types.Struct)
	return s
}

// ghostFields: extra model-only fields of (usually external, opaque) struct types.
type GhostField struct {
	Name string
	Type types.Type
}

// Shapes computes leaves for Go types.
type Shapes struct {
	Ghost  map[string][]GhostField    // by qualName of struct type
	Open   map[string]map[string]bool // fields of external struct types that are modelled (open field T.name)
	FuncID func(VFunc) *Term          // identity of a function value that is stored in memory (set by the executor)
}

func (sh *Shapes) Leaves(t types.Type) []Leaf {
	t = types.Unalias(t)
	if isOpaqueInt(t) {
		return []Leaf{{"", SInt, t, ""}}
	}
	switch u := t.Underlying().(type) {
	case *types.Basic:
		if u.Info()&types.IsBoolean != 0 {
			return []Leaf{{"", SBool, t, ""}}
		}
		return []Leaf{{"", SInt, t, ""}}
	case *types.Pointer, *types.Map, *types.Chan, *types.Signature:
		return []Leaf{{"", SInt, t, ""}}
	case *types.Slice:
		return []Leaf{{".arr", SInt, t, "arr"}, {".off", SInt, t, "off"}, {".len", SInt, t, "len"}, {".cap", SInt, t, "cap"}}
	case *types.Interface:
		return []Leaf{{".tag", SInt, t, "tag"}, {".val", SInt, t, "val"}}
	case *types.Struct:
		var out []Leaf
		for _, f := range sh.Fields(t) {
			for _, l := range sh.Leaves(f.Type) {
				out = append(out, Leaf{"." + f.Name + l.Suffix, l.Sort, l.Type, l.Role})
			}
		}
		return out
	case *types.Tuple:
		var out []Leaf
		for i := 0; i < u.Len(); i++ {
			for _, l := range sh.Leaves(u.At(i).Type()) {
				out = append(out, Leaf{fmt.Sprintf(".%d%s", i, l.Suffix), l.Sort, l.Type, l.Role})
			}
		}
		return out
	case *types.Array:
		// by-value arrays: flattened element-wise when small
		if u.Len() <= 16 {
			var out []Leaf
			for i := int64(0); i < u.Len(); i++ {
				for _, l := range sh.Leaves(u.Elem()) {
					out = append(out, Leaf{fmt.Sprintf(".%d%s", i, l.Suffix), l.Sort, l.Type, l.Role})
				}
			}
			return out
		}
	}
	panic(unsupported("type shape " + t.String()))
}

type FieldInfo struct {
	Name  string
	Type  types.Type
	Ghost bool
	Index int // index in the Go struct, -1 for ghost
}

// Fields lists the modelled fields of a struct type: for repo structs the real
// fields plus ghost fields; for external structs only the ghost fields.
func (sh *Shapes) Fields(t types.Type) []FieldInfo {
	t = types.Unalias(t)
	st := structOf(t)
	var out []FieldInfo
	n, _ := t.(*types.Named)
	external := n != nil && n.Obj().Pkg() != nil && !strings.HasPrefix(n.Obj().Pkg().Path(), RepoModule)
	if st != nil {
		for i := 0; i < st.NumFields(); i++ {
			f := st.Field(i)
			if external && !sh.Open[qualName(n)][f.Name()] {
				continue
			}
			out = append(out, FieldInfo{f.Name(), f.Type(), false, i})
		}
	}
	if n != nil {
		for _, g := range sh.Ghost[qualName(n)] {
			out = append(out, FieldInfo{"$" + g.Name, g.Type, true, -1})
		}
	}
	return out
}

type unsupportedErr struct{ msg string }

func (u unsupportedErr) Error() string { return "unsupported: " + u.msg }
func unsupported(msg string) error     { return unsupportedErr{msg} }

// ---- flatten / unflatten ----

func (sh *Shapes) Flatten(v Val) []*Term {
	switch v := v.(type) {
	case VInt:
		return []*Term{v.T}
	case VBool:
		return []*Term{v.T}
	case VSlice:
		return []*Term{v.Arr, v.Off, v.Len, v.Cap}
	case VIface:
		return []*Term{v.Tag, v.Val}
	case VStruct:
		var out []*Term
		for _, f := range v.F {
			out = append(out, sh.Flatten(f)...)
		}
		return out
	case VFunc:
		// a function value stored in memory: an integer identity registered with the executor
		if sh.FuncID != nil {
			return []*Term{sh.FuncID(v)}
		}
	}
	panic(unsupported(fmt.Sprintf("flatten %T", v)))
}

func (sh *Shapes) Unflatten(t types.Type, ts []*Term) Val {
	v, rest := sh.unflat(t, ts)
	if len(rest) != 0 {
		panic("unflatten: leftover terms")
	}
	return v
}

func (sh *Shapes) unflat(t types.Type, ts []*Term) (Val, []*Term) {
	t = types.Unalias(t)
	if isOpaqueInt(t) {
		return VInt{ts[0]}, ts[1:]
	}
	switch u := t.Underlying().(type) {
	case *types.Basic:
		if u.Info()&types.IsBoolean != 0 {
			return VBool{ts[0]}, ts[1:]
		}
		return VInt{ts[0]}, ts[1:]
	case *types.Pointer, *types.Map, *types.Chan, *types.Signature:
		return VInt{ts[0]}, ts[1:]
	case *types.Slice:
		return VSlice{ts[0], ts[1], ts[2], ts[3]}, ts[4:]
	case *types.Interface:
		return VIface{ts[0], ts[1]}, ts[2:]
	case *types.Struct:
		var fs []Val
		for _, f := range sh.Fields(t) {
			var v Val
			v, ts = sh.unflat(f.Type, ts)
			fs = append(fs, v)
		}
		return VStruct{fs}, ts
	case *types.Tuple:
		var fs []Val
		for i := 0; i < u.Len(); i++ {
			var v Val
			v, ts = sh.unflat(u.At(i).Type(), ts)
			fs = append(fs, v)
		}
		return VStruct{fs}, ts
	case *types.Array:
		var fs []Val
		for i := int64(0); i < u.Len(); i++ {
			var v Val
			v, ts = sh.unflat(u.Elem(), ts)
			fs = append(fs, v)
		}
		return VStruct{fs}, ts
	}
	panic(unsupported("unflatten " + t.String()))
}

// ---- state ----

// State is the symbolic machine state at a program point.
type State struct {
	PC    *Term            // path condition
	Heap  map[string]*Term // component name -> array term
	Cells map[string]Val   // local cells (address-taken non-struct locals)
	Alloc *Term            // allocation counter
}

func (s *State) Clone() *State {
	n := &State{PC: s.PC, Alloc: s.Alloc, Heap: make(map[string]*Term, len(s.Heap)), Cells: make(map[string]Val, len(s.Cells))}
	for k, v := range s.Heap {
		n.Heap[k] = v
	}
	for k, v := range s.Cells {
		n.Cells[k] = v
	}
	return n
}

func heapKeys(m map[string]*Term) []string {
	ks := make([]string, 0, len(m))
	for k := range m {
		ks = append(ks, k)
	}
	sort.Strings(ks)
	return ks
}
