package govc

// Frames: modifies sets, havoc with frame axioms, frame obligations (DESIGN §3.6, App. A).

import (
	"fmt"
	"go/types"

	"golang.org/x/tools/go/ssa"
	"strings"
)

type modField struct {
	prefix string // "H!Owner.field"
	obj    *Term
	src    string
	// each-form: obj ranges over the payload pointers of the elements of a slice of interfaces
	each    bool
	eachVal *Term // component (Array Int (Array Int Int)) of payloads at evaluation time
	eachArr *Term
	eachOff *Term
	eachLen *Term
}

type modElems struct {
	prefix string // "A!elem"
	arr    *Term
	lo, hi *Term // absolute indices; nil = whole array
	src    string
}

type modMap struct {
	prefix string // "M!maptype"
	id     *Term
	src    string
}

type ModSet struct {
	Any     bool
	Fields  []modField
	Elems   []modElems
	Maps    []modMap
	Globals map[string]bool // "G!name" prefixes
	Cells   map[string]bool
	keys    map[string]Sort // all component keys possibly affected
}

func keyMatches(key, prefix string) bool {
	return key == prefix || strings.HasPrefix(key, prefix+".")
}

func newModSet() *ModSet {
	return &ModSet{Globals: map[string]bool{}, Cells: map[string]bool{}, keys: map[string]Sort{}}
}

// addFieldLoc registers field fi of struct type T at address obj.
func (x *Exec) modAddField(ms *ModSet, T types.Type, fi FieldInfo, obj *Term, src string) {
	if s := structOf(fi.Type); s != nil && !isOpaqueInt(fi.Type) {
		for _, f2 := range x.Sh.Fields(fi.Type) {
			x.modAddField(ms, fi.Type, f2, obj, src)
		}
		return
	}
	prefix := "H!" + ownerName(T) + "." + fi.Name
	ms.Fields = append(ms.Fields, modField{prefix: prefix, obj: obj, src: src})
	for _, l := range x.Sh.Leaves(fi.Type) {
		ms.keys[compKeyField(ownerName(T), fi.Name, l.Suffix)] = ArrSort(SInt, l.Sort)
	}
	// a function that may lock or unlock a mutex (modifies m.held / m.rheld) may also advance its ghost
	// acquisition counter m.acq: the counter is bookkeeping of the same lock operations
	if x.autoAcq && fi.Ghost && (fi.Name == "$held" || fi.Name == "$rheld") {
		for _, f2 := range x.Sh.Fields(T) {
			if f2.Ghost && f2.Name == "$acq" {
				x.modAddField(ms, T, f2, obj, src)
			}
		}
	}
}

func (x *Exec) modAddElems(ms *ModSet, elem types.Type, arr, lo, hi *Term, src string) {
	prefix := "A!" + typeName(elem)
	ms.Elems = append(ms.Elems, modElems{prefix, arr, lo, hi, src})
	for _, l := range x.Sh.Leaves(elem) {
		ms.keys[compKeyElems(elem, l.Suffix)] = ArrSort(SInt, ArrSort(SInt, l.Sort))
	}
}

func (x *Exec) modAddMap(ms *ModSet, mt *types.Map, id *Term, src string) {
	prefix := "M!" + typeName(mt)
	ms.Maps = append(ms.Maps, modMap{prefix, id, src})
	for k, s := range x.mapKeys(mt) {
		ms.keys[k] = s
	}
}

// evalModSet evaluates a contract's modifies clause in env (pre-state).
func (x *Exec) evalModSet(sp *FuncSpec, env *SpecEnv) *ModSet {
	ms := newModSet()
	if sp.ModAny {
		ms.Any = true
		return ms
	}
	// library contracts list their ghost effects exactly; for repository functions `modifies m.held` stands for
	// "may lock/unlock m", which includes advancing the acquisition counter
	x.autoAcq = !sp.Extern
	defer func() { x.autoAcq = false }()
	for _, ml := range sp.Modifies {
		switch ml.Kind {
		case "field":
			sel := ml.E.(ESel)
			base := env.eval(sel.X)
			T, addr := x.structPtrOf(base)
			if T == nil {
				panic(fmt.Errorf("modifies %s: base is not a struct pointer", ml.Src))
			}
			T2, fi, addr2, ok := x.resolveField(env, T, addr, sel.Name)
			if !ok {
				panic(fmt.Errorf("modifies %s: no field %s", ml.Src, sel.Name))
			}
			x.modAddField(ms, T2, fi, addr2, ml.Src)
		case "chan":
			base := env.eval(ml.E)
			ct, ok := typeUnder(base.T).(*types.Chan)
			if !ok {
				panic(fmt.Errorf("modifies %s: not a channel", ml.Src))
			}
			prefix := "C!" + typeName(ct.Elem())
			ms.Maps = append(ms.Maps, modMap{prefix, base.V.(VInt).T, ml.Src})
			ms.keys[prefix+".n"] = ArrSort(SInt, SInt)
			for _, l := range x.Sh.Leaves(ct.Elem()) {
				ms.keys[prefix+".log"+l.Suffix] = ArrSort(SInt, ArrSort(SInt, l.Sort))
			}
		case "ghostglobal":
			name := strings.TrimPrefix(ml.E.(EIdent).Name, "$")
			gt, ok := x.W.Specs.GhostGlobals[name]
			if !ok {
				panic(fmt.Errorf("modifies %s: unknown ghost global", ml.Src))
			}
			T := env.resolveParamType(gt)
			ms.Globals["G!ghost."+name] = true
			for _, l := range x.Sh.Leaves(T) {
				ms.keys[compKeyGlobal("ghost."+name, l.Suffix)] = ArrSort(SInt, l.Sort)
			}
		case "global":
			name := ml.E.(EIdent).Name
			var g *ssa.Global
			if env.Pkg != nil {
				g, _ = env.Pkg.Members[name].(*ssa.Global)
			}
			if g == nil {
				panic(fmt.Errorf("modifies %s: not a package-level variable", ml.Src))
			}
			gt := g.Type().(*types.Pointer).Elem()
			ms.Globals["G!"+globalName(g)] = true
			for _, l := range x.Sh.Leaves(gt) {
				ms.keys[compKeyGlobal(globalName(g), l.Suffix)] = ArrSort(SInt, l.Sort)
			}
		case "eachfield":
			base := env.eval(ml.E)
			sl, ok := base.V.(VSlice)
			if !ok {
				panic(fmt.Errorf("modifies %s: not a slice", ml.Src))
			}
			elem := typeUnder(base.T).(*types.Slice).Elem()
			T := env.resolveType(ml.CastType)
			pt, ok := typeUnder(T).(*types.Pointer)
			if !ok || structOf(pt.Elem()) == nil {
				panic(fmt.Errorf("modifies %s: cast type must be a struct pointer", ml.Src))
			}
			fi, ok := x.fieldByName(pt.Elem(), ml.Field)
			if !ok {
				panic(fmt.Errorf("modifies %s: no field %s", ml.Src, ml.Field))
			}
			var valLeaf Leaf
			ls := x.Sh.Leaves(elem)
			for _, l := range ls {
				if l.Role == "val" {
					valLeaf = l
				}
			}
			if len(ls) == 1 {
				valLeaf = ls[0] // slice of pointers
			}
			_, comp := x.elemsComp(env.Cur, elem, valLeaf)
			n0 := len(ms.Fields)
			x.modAddField(ms, pt.Elem(), fi, x.C.Int(0), ml.Src)
			for k := n0; k < len(ms.Fields); k++ {
				ms.Fields[k].each = true
				ms.Fields[k].eachVal, ms.Fields[k].eachArr, ms.Fields[k].eachOff, ms.Fields[k].eachLen = comp, sl.Arr, sl.Off, sl.Len
			}
		case "allfields":
			base := env.eval(ml.E)
			T, addr := x.structPtrOf(base)
			if T == nil {
				panic(fmt.Errorf("modifies %s: base is not a struct pointer", ml.Src))
			}
			for _, fi := range x.Sh.Fields(T) {
				x.modAddField(ms, T, fi, addr, ml.Src)
			}
		case "elems", "range":
			base := env.eval(ml.E)
			sl, ok := base.V.(VSlice)
			if !ok {
				if mt, isMap := typeUnder(base.T).(*types.Map); isMap && ml.Kind == "elems" {
					x.modAddMap(ms, mt, base.V.(VInt).T, ml.Src)
					continue
				}
				panic(fmt.Errorf("modifies %s: not a slice", ml.Src))
			}
			elem := typeUnder(base.T).(*types.Slice).Elem()
			if ml.Kind == "elems" {
				x.modAddElems(ms, elem, sl.Arr, nil, nil, ml.Src)
			} else {
				lo := x.C.Int(0)
				hi := sl.Len
				if ml.Lo != nil {
					lo = env.evalInt(ml.Lo)
				}
				if ml.Hi != nil {
					hi = env.evalInt(ml.Hi)
				}
				x.modAddElems(ms, elem, sl.Arr, x.C.Add(sl.Off, lo), x.C.Add(sl.Off, hi), ml.Src)
			}
		case "cell":
			base := env.eval(ml.E)
			p, ok := base.V.(VPtr)
			if !ok {
				panic(fmt.Errorf("modifies %s: not a pointer", ml.Src))
			}
			switch p.Kind {
			case PCell:
				ms.Cells[p.Glob] = true
			case PField:
				fi := x.fieldByIndex(p.Owner, p.Field)
				x.modAddField(ms, p.Owner, fi, p.Obj, ml.Src)
			case PGlobal:
				ms.Globals["G!"+p.Glob] = true
				for _, l := range x.Sh.Leaves(p.Elem) {
					ms.keys[compKeyGlobal(p.Glob, l.Suffix)] = ArrSort(SInt, l.Sort)
				}
			case PElem:
				x.modAddElems(ms, p.Elem, p.Arr, p.Idx, x.C.Add(p.Idx, x.C.Int(1)), ml.Src)
			}
		}
	}
	return ms
}

func typeUnder(t types.Type) types.Type {
	if t == nil {
		return nil
	}
	return types.Unalias(t).Underlying()
}

// structPtrOf: if sv is a pointer to struct (or interface whose payload is), return struct type and address.
func (x *Exec) structPtrOf(sv SV) (types.Type, *Term) {
	if sv.T == nil {
		return nil, nil
	}
	if p, ok := typeUnder(sv.T).(*types.Pointer); ok {
		if structOf(p.Elem()) != nil {
			if vi, ok := sv.V.(VInt); ok {
				return p.Elem(), vi.T
			}
		}
	}
	return nil, nil
}

// inModObj: is object address p within the modifies set for component key?
func (x *Exec) inModObj(ms *ModSet, key string, p *Term) *Term {
	c := x.C
	var alts []*Term
	for _, f := range ms.Fields {
		if keyMatches(key, f.prefix) {
			if f.each {
				i := c.NewBound("e", SInt)
				alts = append(alts, c.Exists([]*Term{i}, c.And(c.InRange(i, c.Int(0), f.eachLen),
					c.Eq(p, c.Select(c.Select(f.eachVal, f.eachArr), x.slot(f.eachOff, i))))))
				continue
			}
			alts = append(alts, c.Eq(p, f.obj))
		}
	}
	for _, m := range ms.Maps {
		if keyMatches(key, m.prefix) {
			alts = append(alts, c.Eq(p, m.id))
		}
	}
	return c.Or(alts...)
}

// inModElem: is element (arr, idx) within the modifies set for component key?
func (x *Exec) inModElem(ms *ModSet, key string, arr, idx *Term) *Term {
	c := x.C
	var alts []*Term
	for _, e := range ms.Elems {
		if !keyMatches(key, e.prefix) {
			continue
		}
		if e.lo == nil {
			alts = append(alts, c.Eq(arr, e.arr))
		} else if idx != nil {
			alts = append(alts, c.And(c.Eq(arr, e.arr), c.InRange(idx, e.lo, e.hi)))
		}
	}
	return c.Or(alts...)
}

func (x *Exec) entryAlloc() *Term { return x.entry.Alloc }

func (x *Exec) entryComp(key string) *Term {
	if t, ok := x.entryHeap[key]; ok {
		return t
	}
	t := x.C.Const("H0!"+key, x.compSorts[key])
	x.entryHeap[key] = t
	return t
}

// frameAxioms: for components havocked at a loop head, what is known from the
// unit's modifies clause: locations allocated at entry and outside the clause
// still hold their entry values.
func (x *Exec) frameAxioms(st *State, keys []string) {
	if x.dry || x.mods == nil || x.mods.Any {
		return
	}
	for _, k := range keys {
		if strings.HasPrefix(k, "cell:") {
			continue
		}
		if _, ok := x.compSorts[k]; !ok {
			continue
		}
		x.frameAxiomFor(st, k, st.Heap[k], x.entryComp(k), x.mods, x.entryAlloc())
	}
}

// frameAxiomFor asserts: for every location of component k that is not in ms
// (and, if allocBound != nil, was allocated at the reference point), cur == ref.
func (x *Exec) frameAxiomFor(st *State, k string, cur, ref *Term, ms *ModSet, allocBound *Term) {
	c := x.C
	if cur == ref {
		return
	}
	switch {
	case strings.HasPrefix(k, "G!"):
		for g := range ms.Globals {
			if keyMatches(k, g) {
				return
			}
		}
		x.assume(st, c.Eq(cur, ref))
	case strings.HasPrefix(k, "A!"):
		a := c.NewBound("a", SInt)
		cond := c.Not(x.inModElem(ms, k, a, nil))
		// arrays with a range entry are handled below
		for _, e := range ms.Elems {
			if keyMatches(k, e.prefix) && e.lo != nil {
				cond = c.And(cond, c.Ne(a, e.arr))
			}
		}
		if allocBound != nil {
			cond = c.And(cond, c.Le(a, allocBound))
		}
		sel := c.Select(cur, a)
		x.assume(st, c.Forall([]*Term{a}, c.Implies(cond, c.Eq(sel, c.Select(ref, a))), []*Term{sel}))
		// partially modified arrays: group range entries by array term
		seen := map[*Term]bool{}
		for _, e := range ms.Elems {
			if !keyMatches(k, e.prefix) || e.lo == nil || seen[e.arr] {
				continue
			}
			seen[e.arr] = true
			i := c.NewBound("i", SInt)
			var inAny []*Term
			whole := false
			for _, e2 := range ms.Elems {
				if keyMatches(k, e2.prefix) && e2.arr == e.arr {
					if e2.lo == nil {
						whole = true
					} else {
						inAny = append(inAny, c.InRange(i, e2.lo, e2.hi))
					}
				}
			}
			if whole {
				continue
			}
			// other whole-array entries may alias this array
			var aliasWhole []*Term
			for _, e2 := range ms.Elems {
				if keyMatches(k, e2.prefix) && e2.lo == nil {
					aliasWhole = append(aliasWhole, c.Eq(e.arr, e2.arr))
				}
			}
			// ranges on other array terms that may alias
			for _, e2 := range ms.Elems {
				if keyMatches(k, e2.prefix) && e2.lo != nil && e2.arr != e.arr {
					inAny = append(inAny, c.And(c.Eq(e.arr, e2.arr), c.InRange(i, e2.lo, e2.hi)))
				}
			}
			sel2 := c.Select(c.Select(cur, e.arr), i)
			guard := c.And(c.Not(c.Or(inAny...)), c.Not(c.Or(aliasWhole...)))
			if allocBound != nil {
				guard = c.And(guard, c.Le(e.arr, allocBound))
			}
			x.assume(st, c.Forall([]*Term{i}, c.Implies(guard, c.Eq(sel2, c.Select(c.Select(ref, e.arr), i))), []*Term{sel2}))
		}
	default: // H!, M!
		p := c.NewBound("p", SInt)
		cond := c.Not(x.inModObj(ms, k, p))
		if allocBound != nil {
			cond = c.And(cond, c.Le(p, allocBound))
		}
		sel := c.Select(cur, p)
		x.assume(st, c.Forall([]*Term{p}, c.Implies(cond, c.Eq(sel, c.Select(ref, p))), []*Term{sel}))
	}
}

// havocFootprint havocs the components a callee may modify, keeping everything
// outside its modifies clause (DESIGN §3.6).
func (x *Exec) havocFootprint(st *State, pre *State, ms *ModSet) {
	c := x.C
	newAlloc := c.Fresh("alloc!call", SInt)
	if x.dry {
		if ms.Any {
			x.havocAll(st)
			return
		}
		for k, s := range ms.keys {
			x.compSorts[k] = s
			x.heapGet(st, k, s)
			st.Heap[k] = c.Fresh("Hc!"+k, s)
			noted := false
			for _, f := range ms.Fields {
				if keyMatches(k, f.prefix) {
					if f.each {
						x.noteWriteAt(k, nil)
					} else {
						x.noteWriteAt(k, f.obj)
					}
					noted = true
				}
			}
			for _, e := range ms.Elems {
				if keyMatches(k, e.prefix) {
					x.noteWriteAt(k, e.arr)
					noted = true
				}
			}
			for _, m := range ms.Maps {
				if keyMatches(k, m.prefix) {
					x.noteWriteAt(k, m.id)
					noted = true
				}
			}
			if !noted {
				x.noteWriteAt(k, nil)
			}
		}
		for ck := range ms.Cells {
			x.noteWrite("cell:" + ck)
		}
		st.Alloc = newAlloc
		return
	}
	if ms.Any {
		x.note("call with `modifies *`: entire heap havocked")
		x.curAlloc = newAlloc
		for _, k := range heapKeys(st.Heap) {
			x.heapSet(st, k, c.Fresh("Hc!"+k, x.compSorts[k]))
			x.rangeAxiom(k, st.Heap[k])
		}
		for ck, v := range st.Cells {
			st.Cells[ck] = x.symbolicLikeVal(v, "cellc!"+ck)
		}
		st.Alloc = newAlloc
		x.assume(st, c.Le(pre.Alloc, st.Alloc))
		return
	}
	var keys []string
	for k := range ms.keys {
		keys = append(keys, k)
	}
	sortStrings(keys)
	x.curAlloc = newAlloc
	for _, k := range keys {
		s := ms.keys[k]
		x.compSorts[k] = s
		ref := x.heapGet(st, k, s)
		cur := c.Fresh("Hc!"+k, s)
		x.heapSet(st, k, cur)
		x.rangeAxiom(k, cur)
		x.frameAxiomFor(st, k, cur, ref, ms, nil)
	}
	for ck := range ms.Cells {
		if v, ok := st.Cells[ck]; ok {
			st.Cells[ck] = x.symbolicLikeVal(v, "cellc!"+ck)
			x.noteWrite("cell:" + ck)
		}
	}
	st.Alloc = newAlloc
	x.assume(st, c.Le(pre.Alloc, st.Alloc))
}

func sortStrings(s []string) {
	for i := 1; i < len(s); i++ {
		for j := i; j > 0 && s[j] < s[j-1]; j-- {
			s[j], s[j-1] = s[j-1], s[j]
		}
	}
}

// ---- frame obligations for the unit's own writes ----

func (x *Exec) frameActive() bool {
	return !x.dry && x.mods != nil && !x.mods.Any && x.checkFrames
}

func (x *Exec) isFreshTerm(p *Term) bool { return x.freshAddrs[p.id] }

func (x *Exec) frameCheckObj(st *State, key string, p *Term) {
	if !x.frameActive() || x.isFreshTerm(p) {
		return
	}
	c := x.C
	cond := c.Or(c.Gt(p, x.entryAlloc()), x.inModObj(x.mods, key, p))
	x.oblige(st, "frame", key, x.curSite, "write stays within the modifies clause or a fresh object", cond)
}

func (x *Exec) frameCheckElem(st *State, key string, arr, idx *Term) {
	if !x.frameActive() || x.isFreshTerm(arr) {
		return
	}
	c := x.C
	cond := c.Or(c.Gt(arr, x.entryAlloc()), x.inModElem(x.mods, key, arr, idx))
	x.oblige(st, "frame", key, x.curSite, "element write stays within the modifies clause or a fresh array", cond)
}

func (x *Exec) frameCheckElemRange(st *State, key string, arr, lo, hi, guard *Term, site string) {
	if !x.frameActive() || x.isFreshTerm(arr) {
		return
	}
	c := x.C
	i := c.NewBound("i", SInt)
	inm := x.inModElem(x.mods, key, arr, i)
	all := c.Forall([]*Term{i}, c.Implies(c.InRange(i, lo, hi), inm))
	cond := c.Implies(guard, c.Or(c.Gt(arr, x.entryAlloc()), c.Le(hi, lo), c.Eq(arr, c.Int(0)), all))
	x.oblige(st, "frame", key, site, "range write stays within the modifies clause or a fresh array", cond)
}

func (x *Exec) frameCheckGlobal(st *State, key string) {
	if !x.frameActive() {
		return
	}
	for g := range x.mods.Globals {
		if keyMatches(key, g) {
			return
		}
	}
	x.oblige(st, "frame", key, x.curSite, "write to a global outside the modifies clause", x.C.False())
}

// calleeFrameCheck: the callee's footprint lies within the unit's.
func (x *Exec) calleeFrameCheck(st *State, ms *ModSet, site string) {
	if !x.frameActive() {
		return
	}
	c := x.C
	if ms.Any {
		x.oblige(st, "frame", "callee-modifies-any", site, "callee may modify anything", c.False())
		return
	}
	for _, f := range ms.Fields {
		if f.each {
			q := c.NewBound("e", SInt)
			obj := c.Select(c.Select(f.eachVal, f.eachArr), x.slot(f.eachOff, q))
			cond := c.Forall([]*Term{q}, c.Implies(c.InRange(q, c.Int(0), f.eachLen),
				c.Or(c.Gt(obj, x.entryAlloc()), x.inModObj(x.mods, f.prefix, obj))))
			x.oblige(st, "frame", "callee:"+f.src, site, "callee footprint within the unit's modifies clause", cond)
			continue
		}
		if x.isFreshTerm(f.obj) {
			continue
		}
		cond := c.Or(c.Gt(f.obj, x.entryAlloc()), x.inModObj(x.mods, f.prefix, f.obj))
		x.oblige(st, "frame", "callee:"+f.src, site, "callee footprint within the unit's modifies clause", cond)
	}
	for _, m := range ms.Maps {
		if x.isFreshTerm(m.id) {
			continue
		}
		cond := c.Or(c.Gt(m.id, x.entryAlloc()), x.inModObj(x.mods, m.prefix, m.id))
		x.oblige(st, "frame", "callee:"+m.src, site, "callee footprint within the unit's modifies clause", cond)
	}
	for _, e := range ms.Elems {
		if x.isFreshTerm(e.arr) {
			continue
		}
		var cond *Term
		if e.lo == nil {
			cond = c.Or(c.Gt(e.arr, x.entryAlloc()), x.inModElem(x.mods, e.prefix, e.arr, nil))
		} else {
			i := c.NewBound("i", SInt)
			all := c.Forall([]*Term{i}, c.Implies(c.InRange(i, e.lo, e.hi), x.inModElem(x.mods, e.prefix, e.arr, i)))
			cond = c.Or(c.Gt(e.arr, x.entryAlloc()), c.Le(e.hi, e.lo), c.Eq(e.arr, c.Int(0)), all)
		}
		x.oblige(st, "frame", "callee:"+e.src, site, "callee footprint within the unit's modifies clause", cond)
	}
	for g := range ms.Globals {
		if !x.mods.Globals[g] {
			x.oblige(st, "frame", "callee:"+g, site, "callee writes a global outside the unit's modifies clause", c.False())
		}
	}
}
