package govc

// Replay of counterexamples on the real code (DESIGN §5.2). Drivers are Go test
// templates under /verif/replay/<pkg>/ injected in-package with `go test
// -overlay`; nothing is written to /repo. A driver re-executes the solver's
// candidate input (when the model gives one) and otherwise runs a directed
// search over boundary inputs of the unit, evaluating the contract's clauses
// concretely with an executable copy of the spec vocabulary.

import (
	"context"
	"encoding/json"
	"fmt"
	"os"
	"os/exec"
	"path/filepath"
	"regexp"
	"strings"
	"time"
)

type replayDriver struct {
	Pkg      string // package dir relative to repo
	File     string // driver file under /verif/replay
	Test     string // test name
	Mode     string // VERIF_REPLAY_MODE
	TimeoutS int
	// Rewrite: a source file of the package that is replaced, in the overlay only, by a copy in
	// which From is textually replaced by To (e.g. time.Now() by an injectable clock). Stated in the replay file.
	Rewrite [3]string // file (relative to Pkg), from, to
}

var replayDrivers = map[string]replayDriver{
	"codec-encode":  {Pkg: "pkg/entities", File: "entities/codec_replay_test.go", Test: "TestVerifReplayCodec", Mode: "encode", TimeoutS: 120},
	"codec-decode":  {Pkg: "pkg/entities", File: "entities/codec_replay_test.go", Test: "TestVerifReplayCodec", Mode: "decode", TimeoutS: 120},
	"session":       {Pkg: "pkg/exporter", File: "exporter/session_replay_test.go", Test: "TestVerifReplaySession", TimeoutS: 120},
	"packet":        {Pkg: "pkg/collector", File: "collector/packet_replay_test.go", Test: "TestVerifReplayPacket", TimeoutS: 120},
	"registry-enum": {Pkg: "pkg/registry", File: "registry/enum_replay_test.go", Test: "TestVerifEnumRegistry", TimeoutS: 120},
	"tcpframe":      {Pkg: "pkg/collector", File: "collector/tcpframe_replay_test.go", Test: "TestVerifReplayTCPFrame", TimeoutS: 120},
	"tlscfg":        {Pkg: "pkg/exporter", File: "exporter/tlscfg_replay_test.go", Test: "TestVerifReplayTLSConfig", TimeoutS: 120},
	"tlscfg-server": {Pkg: "pkg/collector", File: "collector/tlscfg_replay_test.go", Test: "TestVerifReplayServerTLSConfig", TimeoutS: 120},
	"tplttl":        {Pkg: "pkg/collector", File: "collector/tplttl_replay_test.go", Test: "TestVerifReplayTemplateTTL", TimeoutS: 120},
	"kafka":         {Pkg: "pkg/kafka/producer/convertor/test", File: "kafka/publish_replay_test.go", Test: "TestVerifReplayKafka", TimeoutS: 120},
	"kafkafields":   {Pkg: "pkg/kafka/producer/convertor/test", File: "kafka/fields_replay_test.go", Test: "TestVerifReplayKafkaFields", TimeoutS: 120},
	"aggregate":     {Pkg: "pkg/intermediate", File: "intermediate/aggregate_replay_test.go", Test: "TestVerifReplayAggregate", TimeoutS: 120},
	"window":        {Pkg: "cmd/collector", File: "cmdcollector/window_replay_test.go", Test: "TestVerifReplayWindow", TimeoutS: 120},
	"expiry": {Pkg: "pkg/intermediate", File: "intermediate/expiry_replay_test.go", Test: "TestVerifReplayExpiry", TimeoutS: 120,
		Rewrite: [3]string{"aggregate.go", "time.Now()", "verifNow()"}},
}

var valueLine = regexp.MustCompile(`\(\s*([^\s()]+)\s+(\(-\s*\d+\)|-?\d+|true|false)\s*\)`)

// parseModelValues extracts "(name value)" pairs from get-value output.
func parseModelValues(out string) map[string]string {
	m := map[string]string{}
	for _, mm := range valueLine.FindAllStringSubmatch(out, -1) {
		v := strings.NewReplacer("(", "", ")", "", " ", "").Replace(mm[2])
		m[mm[1]] = v
	}
	return m
}

// runEnumeration runs an enumeration driver (a finite side condition checked entry by entry on the real code).
// It returns (ok, detail): ok=false when an entry violates the condition or the driver could not run.
func runEnumeration(vd, repo, name string) (bool, map[string]interface{}) {
	info := map[string]interface{}{}
	u := &UnitResult{Spec: &FuncSpec{Replay: name}}
	o := &Oblig{Status: "enum"}
	reproduced := tryReplay(vd, repo, "", u, o, info)
	if reproduced {
		return false, info
	}
	if _, ran := info["replay_result"]; !ran {
		return false, info
	}
	return true, info
}

// tryReplay attempts to reproduce the failure of obligation o on the real code.
func tryReplay(vd, repo, prop string, u *UnitResult, o *Oblig, info map[string]interface{}) bool {
	info["replayed"] = false
	name := ""
	if u.Spec != nil {
		name = u.Spec.Replay
	}
	drv, ok := replayDrivers[name]
	if !ok {
		info["replay_note"] = "no replay driver bound to this unit"
		return false
	}
	tmp, err := os.MkdirTemp("", "govc-replay-")
	if err != nil {
		info["replay_note"] = err.Error()
		return false
	}
	defer os.RemoveAll(tmp)
	// candidate input from the model, when there is one
	inPath := ""
	if o.Status == "sat" && u.Exec != nil && len(u.Exec.replayTerms) > 0 {
		vals := parseModelValues(o.Output)
		cand := map[string]interface{}{}
		for i := range u.Exec.replayTerms {
			if v, ok := vals[fmt.Sprintf("rv!%d", i)]; ok {
				cand[strings.TrimSuffix(u.Exec.replayTerms[i].Name, ".0")] = jsonNumber(v)
			}
		}
		if len(cand) > 0 {
			data, _ := json.Marshal(cand)
			inPath = filepath.Join(tmp, "in.json")
			_ = os.WriteFile(inPath, data, 0o644)
			info["model_candidate"] = cand
		}
	}
	outPath := filepath.Join(tmp, "out.json")
	ov := map[string]map[string]string{"Replace": {
		filepath.Join(repo, drv.Pkg, "zz_verif_replay_test.go"): filepath.Join(vd, "replay", drv.File),
	}}
	if drv.Rewrite[0] != "" {
		src := filepath.Join(repo, drv.Pkg, drv.Rewrite[0])
		data, err := os.ReadFile(src)
		if err != nil {
			info["replay_note"] = "cannot read " + src
			return false
		}
		rew := filepath.Join(tmp, "rewritten_"+drv.Rewrite[0])
		_ = os.WriteFile(rew, []byte(strings.ReplaceAll(string(data), drv.Rewrite[1], drv.Rewrite[2])), 0o644)
		ov["Replace"][src] = rew
		info["replay_rewrite"] = fmt.Sprintf("in the overlay copy of %s only, %q is textually replaced by %q (injectable clock); /repo is not modified", drv.Rewrite[0], drv.Rewrite[1], drv.Rewrite[2])
	}
	ovData, _ := json.Marshal(ov)
	ovPath := filepath.Join(tmp, "overlay.json")
	_ = os.WriteFile(ovPath, ovData, 0o644)
	ctx, cancel := context.WithTimeout(context.Background(), time.Duration(drv.TimeoutS+30)*time.Second)
	defer cancel()
	cmd := exec.CommandContext(ctx, "go", "test", "-overlay", ovPath, "-vet=off", "-count=1",
		"-timeout", fmt.Sprintf("%ds", drv.TimeoutS), "-run", "^"+drv.Test+"$", "./"+drv.Pkg)
	cmd.Dir = repo
	cmd.Env = append(os.Environ(), "GOFLAGS=-mod=mod", "GOPROXY=off", "GOSUMDB=off", "GOTOOLCHAIN=local",
		"VERIF_REPLAY_MODE="+drv.Mode, "VERIF_REPLAY_IN="+inPath, "VERIF_REPLAY_OUT="+outPath)
	out, runErr := cmd.CombinedOutput()
	info["replay_cmd"] = strings.Join(cmd.Args, " ") + " (in-package driver " + drv.File + " injected by overlay, mode " + drv.Mode + ")"
	data, err := os.ReadFile(outPath)
	if err != nil {
		info["replay_note"] = "driver produced no result: " + truncate(string(out), 1500) + fmt.Sprint(runErr)
		return false
	}
	var res map[string]interface{}
	if json.Unmarshal(data, &res) != nil {
		info["replay_note"] = "driver result unreadable"
		return false
	}
	info["replay_result"] = res
	if rep, _ := res["reproduced"].(bool); rep {
		info["replayed"] = true
		info["failing_input"] = res["input"]
		return true
	}
	info["replay_note"] = "directed search over boundary inputs did not reproduce a contract violation on the real code"
	return false
}

func jsonNumber(s string) interface{} {
	if s == "true" {
		return true
	}
	if s == "false" {
		return false
	}
	return json.Number(s)
}

// replayTermNames: how each replay term is printed in the get-value answer.
func replayTermNames(u *UnitResult) []string {
	out := make([]string, len(u.Exec.replayTerms))
	for i, rt := range u.Exec.replayTerms {
		out[i] = printTerm(rt.T, nil)
	}
	return out
}
