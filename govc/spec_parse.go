package govc

// Contract language: parser (DESIGN §4.2). Contracts live in //@ lines of
// build-tagged comment-only files inside /repo, models of dependencies in
// /verif/models/*.spec (same syntax, `extern`).

import (
	"fmt"
	"math/big"
	"os"
	"path/filepath"
	"strings"
	"unicode"
)

type Expr interface{}

type EInt struct{ V *big.Int }
type EBoolLit struct{ V bool }
type EStr struct{ S string }
type ENil struct{}
type EIdent struct{ Name string }
type EBin struct {
	Op   string
	L, R Expr
}
type EUn struct {
	Op string
	X  Expr
}
type ECall struct {
	Fn   string
	Args []Expr
}
type ESel struct {
	X    Expr
	Name string
}
type EIndex struct{ X, I Expr }
type ESlice struct{ X, Lo, Hi Expr }
type ECast struct {
	X    Expr
	Type string
}
type EQuant struct {
	Kind   string // forall / exists
	Vars   []string
	Lo, Hi Expr // optional range for all vars
	Body   Expr
}
type ECond struct{ C, A, B Expr }
type EOld struct{ X Expr }
type EPrev struct{ X Expr }
type EEntry struct{ X Expr }
type ESum struct {
	Var    string
	Lo, Hi Expr
	Body   Expr
	Pos    string
}
type ETypeLit struct{ Type string }

type Clause struct {
	Label string
	E     Expr
	Src   string
}

type LoopSpec struct {
	Hints      []Clause // checked, then assumed, at the head of the arbitrary iteration (after the invariant)
	Steps      []Clause // checked on every back edge; prev(e) is e at the head of the iteration
	OnExit     []Clause // bottom-tested loops: checked, then assumed, on the exit edge of the latch (loop variables already incremented)
	Invariants []Clause
	Decreases  Expr
	DecSrc     string
	Unroll     int  // >0: unroll exactly N times with unwinding obligation
	Bounded    bool // unroll is a bound (assume exit), not exact
}

type Param struct {
	Name string
	Type string // only for pure functions
}

type ModLoc struct {
	CastType string
	Field    string
	E        Expr   // location expression
	Kind     string // "field" (x.f), "elems" (s[*]), "range" (s[a:b]), "cell" (*p), "allfields" (x.*), "map" (m[*])
	Lo       Expr
	Hi       Expr
	Src      string
}

type FuncSpec struct {
	Pkg           string // import path of the contract file's package ("" for extern)
	Recv          string // receiver type text, e.g. "*dataRecord" or "" ; for extern: unused
	RecvName      string
	Name          string // function name (with $k for closures) ; for extern: full ssa name
	Extern        bool
	Params        []Param
	Results       []Param
	Requires      []Clause
	Ensures       []Clause
	Modifies      []ModLoc
	ModAny        bool // modifies * : anything
	Loops         map[int]*LoopSpec
	Lets          []Param // name = expr source (macro)
	LetExprs      map[string]Expr
	Replay        string
	ReplayKV      [][2]string
	Trusted       bool
	InlineOnly    bool // carries loop invariants for a function that is only verified inlined into its caller
	Pure          bool // (for extern) no heap effect at all
	File          string
	Line          int
	DynTypes      map[string]string    // interface parameter -> dynamic type it holds in this unit (see `dyntype`)
	Given         []string             // universally quantified integer parameters (see `given`)
	InlineCallees []string             // callees executed by body in this unit
	ExtraLoops    map[string]*LoopSpec // "callee.K" -> invariants added to loop K of an inlined callee
	Captures      []Param              // for closures: names bound to free variables, positional
	CallPre       map[string][]Clause  // extra assertions at every call of a named callee inside this unit
	CallPost      map[string][]Clause  // assertions checked, then assumed, right after every call of a named callee inside this unit (cut points inside a loop body)
}

func (f *FuncSpec) Key() string {
	if f.Extern {
		return f.Name
	}
	if f.Recv != "" {
		return f.Pkg + ".(" + f.Recv + ")." + f.Name
	}
	return f.Pkg + "." + f.Name
}

type PureFunc struct {
	Name   string
	Params []Param
	Ret    string
	Body   Expr
	Pkg    string
	Src    string
}

type GhostDecl struct {
	Type  string // struct type text
	Name  string
	GoTyp string
	Pkg   string
}

type LemmaSpec struct {
	Name  string
	Vars  []Param
	Body  Expr
	Pkg   string
	Src   string
	Hints []string
}

type GuardDecl struct {
	Pkg    string
	Fields []string // "T.field"
	Mutex  string   // "T.field"
}

type AbstractFunc struct {
	Name   string
	Params []Param
	Ret    string
}

type SpecDB struct {
	GhostGlobals map[string]string // name -> Go type text
	Abstracts    map[string]*AbstractFunc
	Funcs        map[string]*FuncSpec
	Pures        map[string]*PureFunc
	Ghosts       []GhostDecl
	Opens        []GhostDecl
	Lemmas       []*LemmaSpec
	Guards       []GuardDecl
	Files        []string
}

func NewSpecDB() *SpecDB {
	return &SpecDB{Funcs: map[string]*FuncSpec{}, Pures: map[string]*PureFunc{}, Abstracts: map[string]*AbstractFunc{}, GhostGlobals: map[string]string{}}
}

// ---------------- lexer ----------------

type tok struct {
	kind string // id, int, str, op, eof
	s    string
}

type lexer struct {
	toks []tok
	pos  int
	src  string
}

var ops3 = []string{"<==>", "==>", "...", "<=", ">=", "==", "!=", "&&", "||", ":=", "<<", ">>"}

func lex(src string) ([]tok, error) {
	var out []tok
	i := 0
	for i < len(src) {
		c := src[i]
		if c == ' ' || c == '\t' || c == '\n' {
			i++
			continue
		}
		if c == '/' && i+1 < len(src) && src[i+1] == '/' {
			break // trailing comment
		}
		if unicode.IsLetter(rune(c)) || c == '_' || c == '$' {
			j := i
			for j < len(src) && (unicode.IsLetter(rune(src[j])) || unicode.IsDigit(rune(src[j])) || src[j] == '_' || src[j] == '$') {
				j++
			}
			out = append(out, tok{"id", src[i:j]})
			i = j
			continue
		}
		if unicode.IsDigit(rune(c)) {
			j := i
			if c == '0' && j+1 < len(src) && (src[j+1] == 'x' || src[j+1] == 'X') {
				j += 2
				for j < len(src) && strings.ContainsRune("0123456789abcdefABCDEF", rune(src[j])) {
					j++
				}
			} else {
				for j < len(src) && unicode.IsDigit(rune(src[j])) {
					j++
				}
			}
			out = append(out, tok{"int", src[i:j]})
			i = j
			continue
		}
		if c == '"' {
			j := i + 1
			for j < len(src) && src[j] != '"' {
				if src[j] == '\\' {
					j++
				}
				j++
			}
			if j >= len(src) {
				return nil, fmt.Errorf("unterminated string in %q", src)
			}
			out = append(out, tok{"str", src[i+1 : j]})
			i = j + 1
			continue
		}
		matched := false
		for _, o := range ops3 {
			if strings.HasPrefix(src[i:], o) {
				out = append(out, tok{"op", o})
				i += len(o)
				matched = true
				break
			}
		}
		if matched {
			continue
		}
		if strings.ContainsRune("+-*/%()[]{},.:?<>!=&|^", rune(c)) {
			out = append(out, tok{"op", string(c)})
			i++
			continue
		}
		return nil, fmt.Errorf("unexpected character %q in %q", c, src)
	}
	out = append(out, tok{"eof", ""})
	return out, nil
}

func (l *lexer) peek() tok { return l.toks[l.pos] }
func (l *lexer) peekN(n int) tok {
	if l.pos+n < len(l.toks) {
		return l.toks[l.pos+n]
	}
	return tok{"eof", ""}
}
func (l *lexer) next() tok { t := l.toks[l.pos]; l.pos++; return t }
func (l *lexer) isOp(s string) bool {
	t := l.peek()
	return t.kind == "op" && t.s == s
}
func (l *lexer) isID(s string) bool {
	t := l.peek()
	return t.kind == "id" && t.s == s
}
func (l *lexer) accept(s string) bool {
	if l.isOp(s) {
		l.pos++
		return true
	}
	return false
}
func (l *lexer) expect(s string) {
	if !l.accept(s) {
		panic(fmt.Errorf("expected %q at token %d (%q) in %q", s, l.pos, l.peek().s, l.src))
	}
}

// ---------------- expression parser ----------------

func ParseExpr(src string) (e Expr, err error) {
	toks, err := lex(src)
	if err != nil {
		return nil, err
	}
	l := &lexer{toks: toks, src: src}
	defer func() {
		if r := recover(); r != nil {
			if re, ok := r.(error); ok {
				err = re
				return
			}
			panic(r)
		}
	}()
	e = l.parseExpr()
	if l.peek().kind != "eof" {
		return nil, fmt.Errorf("trailing tokens after expression at %q in %q", l.peek().s, src)
	}
	return e, nil
}

func (l *lexer) parseExpr() Expr {
	if l.isID("forall") || l.isID("exists") {
		return l.parseQuant()
	}
	c := l.parseIff()
	if l.accept("?") {
		a := l.parseExpr()
		l.expect(":")
		b := l.parseExpr()
		return ECond{c, a, b}
	}
	return c
}

func (l *lexer) parseQuant() Expr {
	kind := l.next().s
	var vars []string
	for {
		t := l.next()
		if t.kind != "id" {
			panic(fmt.Errorf("expected bound variable in %q", l.src))
		}
		vars = append(vars, t.s)
		if !l.accept(",") {
			break
		}
	}
	q := EQuant{Kind: kind, Vars: vars}
	if l.isID("in") {
		l.next()
		l.expect("[")
		q.Lo = l.parseExpr()
		l.expect(",")
		q.Hi = l.parseExpr()
		l.expect(")")
	}
	l.expect(":")
	q.Body = l.parseExpr()
	return q
}

func (l *lexer) parseIff() Expr {
	a := l.parseImpl()
	for l.accept("<==>") {
		b := l.parseImpl()
		a = EBin{"<==>", a, b}
	}
	return a
}

func (l *lexer) parseImpl() Expr {
	a := l.parseOr()
	if l.accept("==>") {
		var b Expr
		if l.isID("forall") || l.isID("exists") {
			b = l.parseQuant()
		} else {
			b = l.parseImpl()
		}
		return EBin{"==>", a, b}
	}
	return a
}

func (l *lexer) parseOr() Expr {
	a := l.parseAnd()
	for l.accept("||") {
		b := l.parseAnd()
		a = EBin{"||", a, b}
	}
	return a
}

func (l *lexer) parseAnd() Expr {
	a := l.parseCmp()
	for l.accept("&&") {
		var b Expr
		if l.isID("forall") || l.isID("exists") {
			b = l.parseQuant()
		} else {
			b = l.parseCmp()
		}
		a = EBin{"&&", a, b}
	}
	return a
}

func isCmpOp(s string) bool {
	switch s {
	case "==", "!=", "<", "<=", ">", ">=":
		return true
	}
	return false
}

func (l *lexer) parseCmp() Expr {
	a := l.parseAdd()
	var res Expr
	for l.peek().kind == "op" && isCmpOp(l.peek().s) {
		op := l.next().s
		b := l.parseAdd()
		c := EBin{op, a, b}
		if res == nil {
			res = c
		} else {
			res = EBin{"&&", res, c}
		}
		a = b
	}
	if res != nil {
		return res
	}
	return a
}

func (l *lexer) parseAdd() Expr {
	a := l.parseMul()
	for l.isOp("+") || l.isOp("-") {
		op := l.next().s
		b := l.parseMul()
		a = EBin{op, a, b}
	}
	return a
}

func (l *lexer) parseMul() Expr {
	a := l.parseUnary()
	for l.isOp("*") || l.isOp("/") || l.isOp("%") {
		op := l.next().s
		b := l.parseUnary()
		a = EBin{op, a, b}
	}
	return a
}

func (l *lexer) parseUnary() Expr {
	if l.accept("!") {
		return EUn{"!", l.parseUnary()}
	}
	if l.accept("-") {
		return EUn{"-", l.parseUnary()}
	}
	if l.accept("*") {
		return EUn{"*", l.parseUnary()}
	}
	return l.parsePostfix()
}

func (l *lexer) parseTypeText() string {
	// *T, []T, pkg.T, T, map[K]V
	var sb strings.Builder
	for {
		if l.accept("*") {
			sb.WriteString("*")
			continue
		}
		if l.isOp("[") && l.peekN(1).kind == "op" && l.peekN(1).s == "]" {
			l.next()
			l.next()
			sb.WriteString("[]")
			continue
		}
		break
	}
	t := l.next()
	if t.kind != "id" {
		panic(fmt.Errorf("expected type name in %q", l.src))
	}
	sb.WriteString(t.s)
	if t.s == "map" && l.accept("[") {
		sb.WriteString("[")
		sb.WriteString(l.parseTypeText())
		l.expect("]")
		sb.WriteString("]")
		sb.WriteString(l.parseTypeText())
		return sb.String()
	}
	for l.isOp(".") && l.peekN(1).kind == "id" {
		l.next()
		sb.WriteString(".")
		sb.WriteString(l.next().s)
	}
	return sb.String()
}

func (l *lexer) parsePostfix() Expr {
	e := l.parsePrimary()
	for {
		switch {
		case l.isOp("."):
			l.next()
			if l.accept("(") {
				ty := l.parseTypeText()
				l.expect(")")
				e = ECast{e, ty}
				continue
			}
			t := l.next()
			if t.kind != "id" {
				panic(fmt.Errorf("expected field name after '.' in %q", l.src))
			}
			e = ESel{e, t.s}
		case l.isOp("["):
			l.next()
			if l.accept(":") {
				hi := l.parseExpr()
				l.expect("]")
				e = ESlice{e, nil, hi}
				continue
			}
			i := l.parseExpr()
			if l.accept(":") {
				var hi Expr
				if !l.isOp("]") {
					hi = l.parseExpr()
				}
				l.expect("]")
				e = ESlice{e, i, hi}
				continue
			}
			l.expect("]")
			e = EIndex{e, i}
		default:
			return e
		}
	}
}

func (l *lexer) parsePrimary() Expr {
	t := l.next()
	switch t.kind {
	case "int":
		n := new(big.Int)
		if _, ok := n.SetString(t.s, 0); !ok {
			panic(fmt.Errorf("bad integer %q", t.s))
		}
		return EInt{n}
	case "str":
		return EStr{t.s}
	case "id":
		switch t.s {
		case "true":
			return EBoolLit{true}
		case "false":
			return EBoolLit{false}
		case "nil":
			return ENil{}
		case "old":
			l.expect("(")
			x := l.parseExpr()
			l.expect(")")
			return EOld{x}
		case "entry":
			// entry(e): in a loop invariant or step clause, e in the state in which the loop was entered
			l.expect("(")
			x := l.parseExpr()
			l.expect(")")
			return EEntry{x}
		case "prev":
			// prev(e): in a loop step clause, e at the head of the iteration that just ran
			l.expect("(")
			x := l.parseExpr()
			l.expect(")")
			return EPrev{x}
		case "sum":
			// sum(j in [lo,hi): body)
			l.expect("(")
			v := l.next().s
			if !l.isID("in") {
				panic(fmt.Errorf("expected 'in' in sum in %q", l.src))
			}
			l.next()
			l.expect("[")
			lo := l.parseExpr()
			l.expect(",")
			hi := l.parseExpr()
			l.expect(")")
			l.expect(":")
			body := l.parseExpr()
			l.expect(")")
			return ESum{Var: v, Lo: lo, Hi: hi, Body: body, Pos: l.src}
		case "type":
			l.expect("(")
			ty := l.parseTypeText()
			l.expect(")")
			return ETypeLit{ty}
		}
		if l.isOp("(") {
			l.next()
			var args []Expr
			for !l.isOp(")") {
				// type literal arguments for is(x, *T)
				if (l.isOp("*") || l.isOp("[")) && (t.s == "is" || t.s == "as") && len(args) == 1 {
					args = append(args, ETypeLit{l.parseTypeText()})
				} else if (t.s == "is" || t.s == "as") && len(args) == 1 && l.peek().kind == "id" {
					args = append(args, ETypeLit{l.parseTypeText()})
				} else {
					args = append(args, l.parseExpr())
				}
				if !l.accept(",") {
					break
				}
			}
			l.expect(")")
			return ECall{t.s, args}
		}
		return EIdent{t.s}
	case "op":
		if t.s == "(" {
			e := l.parseExpr()
			l.expect(")")
			return e
		}
	}
	panic(fmt.Errorf("unexpected token %q in %q", t.s, l.src))
}

// ---------------- contract file parser ----------------

// readSpecLines extracts the //@ lines of a file (or all lines of a .spec file).
func readSpecLines(path string) ([]string, []int, error) {
	data, err := os.ReadFile(path)
	if err != nil {
		return nil, nil, err
	}
	var out []string
	var nums []int
	isSpec := strings.HasSuffix(path, ".spec")
	for i, ln := range strings.Split(string(data), "\n") {
		t := strings.TrimSpace(ln)
		if strings.HasPrefix(t, "//@") {
			body := strings.TrimPrefix(t, "//@")
			if strings.HasPrefix(strings.TrimSpace(body), "//") {
				continue // comment inside a contract block
			}
			out = append(out, body)
			nums = append(nums, i+1)
		} else if isSpec {
			if strings.HasPrefix(t, "#") || strings.HasPrefix(t, "//") {
				continue
			}
			out = append(out, ln)
			nums = append(nums, i+1)
		}
	}
	return out, nums, nil
}

var clauseKeywords = map[string]bool{
	"pure": true, "ghost": true, "func": true, "extern": true, "requires": true, "ensures": true,
	"modifies": true, "loop": true, "let": true, "replay": true, "trusted": true, "lemma": true,
	"guarded": true, "captures": true, "noeffect": true, "hint": true, "abstract": true, "callpre": true, "callpost": true, "inlined": true, "open": true, "inline": true, "given": true, "dyntype": true,
}

// joinClauses merges continuation lines (lines whose first word is not a keyword).
func joinClauses(lines []string, nums []int) ([]string, []int) {
	var out []string
	var on []int
	for i, ln := range lines {
		t := strings.TrimSpace(ln)
		if t == "" {
			continue
		}
		first := t
		if j := strings.IndexAny(t, " \t("); j >= 0 {
			first = t[:j]
		}
		if clauseKeywords[first] || len(out) == 0 {
			out = append(out, t)
			on = append(on, nums[i])
		} else {
			out[len(out)-1] += " " + t
		}
	}
	return out, on
}

func (db *SpecDB) LoadFile(path, pkg string) error {
	lines, nums, err := readSpecLines(path)
	if err != nil {
		return err
	}
	db.Files = append(db.Files, path)
	clauses, cn := joinClauses(lines, nums)
	var cur *FuncSpec
	var curLemma *LemmaSpec
	fail := func(i int, format string, a ...interface{}) error {
		return fmt.Errorf("%s:%d: %s", path, cn[i], fmt.Sprintf(format, a...))
	}
	for i, c := range clauses {
		word, rest := splitWord(c)
		switch word {
		case "pure":
			p, err := parsePure(rest, pkg)
			if err != nil {
				return fail(i, "%v", err)
			}
			if old, dup := db.Pures[p.Name]; dup && old != nil {
				return fail(i, "pure %s is already defined (pure functions share one namespace)", p.Name)
			}
			db.Pures[p.Name] = p
			cur = nil
		case "abstract":
			// abstract NAME(params) RET : an uninterpreted function (for lemma schemas)
			i0 := strings.Index(rest, "(")
			j0 := matchParen(rest, i0)
			if i0 < 0 || j0 < 0 {
				return fail(i, "abstract needs a parameter list")
			}
			ps, err := parseParamList(rest[i0+1:j0], true)
			if err != nil {
				return fail(i, "%v", err)
			}
			db.Abstracts[strings.TrimSpace(rest[:i0])] = &AbstractFunc{Name: strings.TrimSpace(rest[:i0]), Params: ps, Ret: strings.TrimSpace(rest[j0+1:])}
			cur = nil
		case "open":
			// open field T.name : model the named field of a struct type declared outside the repository
			w2, r2 := splitWord(rest)
			if w2 != "field" {
				return fail(i, "expected 'open field T.name'")
			}
			tn := strings.TrimSpace(r2)
			k := strings.LastIndex(tn, ".")
			if k < 0 {
				return fail(i, "open field needs T.name")
			}
			db.Opens = append(db.Opens, GhostDecl{Type: tn[:k], Name: tn[k+1:], Pkg: pkg})
			cur = nil
		case "ghost":
			// ghost field T.name type
			w2, r2 := splitWord(rest)
			if w2 == "global" {
				gn, gt := splitWord(r2)
				db.GhostGlobals[gn] = strings.TrimSpace(gt)
				cur = nil
				break
			}
			if w2 != "field" {
				return fail(i, "expected 'ghost field' or 'ghost global'")
			}
			tn, gt := splitWord(r2)
			k := strings.LastIndex(tn, ".")
			if k < 0 {
				return fail(i, "ghost field needs T.name")
			}
			db.Ghosts = append(db.Ghosts, GhostDecl{Type: tn[:k], Name: tn[k+1:], GoTyp: strings.TrimSpace(gt), Pkg: pkg})
			cur = nil
		case "guarded":
			// guarded T.f, T.g by T.mutex
			k := strings.Index(rest, " by ")
			if k < 0 {
				return fail(i, "guarded needs 'by'")
			}
			var fs []string
			for _, f := range strings.Split(rest[:k], ",") {
				fs = append(fs, strings.TrimSpace(f))
			}
			db.Guards = append(db.Guards, GuardDecl{Pkg: pkg, Fields: fs, Mutex: strings.TrimSpace(rest[k+4:])})
			cur = nil
		case "lemma":
			lm, err := parseLemma(rest, pkg)
			if err != nil {
				return fail(i, "%v", err)
			}
			db.Lemmas = append(db.Lemmas, lm)
			cur = nil
			curLemma = lm
		case "hint":
			if curLemma != nil {
				curLemma.Hints = append(curLemma.Hints, strings.TrimSpace(rest))
			}
		case "func", "extern":
			f, err := parseFuncHeader(rest, word == "extern")
			if err != nil {
				return fail(i, "%v", err)
			}
			f.Pkg = pkg
			f.File = path
			f.Line = cn[i]
			if f.Extern {
				f.Pkg = ""
				f.Trusted = true
			}
			if _, dup := db.Funcs[f.Key()]; dup {
				return fail(i, "duplicate contract for %s", f.Key())
			}
			db.Funcs[f.Key()] = f
			cur = f
			curLemma = nil
		case "requires", "ensures":
			if cur == nil {
				return fail(i, "%s outside func", word)
			}
			label, src := splitLabel(rest)
			e, err := ParseExpr(src)
			if err != nil {
				return fail(i, "%v", err)
			}
			cl := Clause{Label: label, E: e, Src: src}
			if word == "requires" {
				cur.Requires = append(cur.Requires, cl)
			} else {
				cur.Ensures = append(cur.Ensures, cl)
			}
		case "modifies":
			if cur == nil {
				return fail(i, "modifies outside func")
			}
			if strings.TrimSpace(rest) == "*" {
				cur.ModAny = true
				break
			}
			for _, part := range splitTop(rest, ',') {
				ml, err := parseModLoc(strings.TrimSpace(part))
				if err != nil {
					return fail(i, "%v", err)
				}
				cur.Modifies = append(cur.Modifies, ml)
			}
		case "callpre":
			// callpre CALLEE label: expr  -- checked (then assumed) at each call of CALLEE in this unit;
			// the expression may use the callee's parameter names and the caller's variables
			if cur == nil {
				return fail(i, "callpre outside func")
			}
			callee, r2 := splitWord(rest)
			label, src := splitLabel(r2)
			e, err := ParseExpr(src)
			if err != nil {
				return fail(i, "%v", err)
			}
			if cur.CallPre == nil {
				cur.CallPre = map[string][]Clause{}
			}
			cur.CallPre[callee] = append(cur.CallPre[callee], Clause{label, e, src})
		case "callpost":
			// callpost CALLEE label: expr  -- checked, then assumed, right after each call of CALLEE (by contract) in this unit:
			// an intermediate assertion, so that a body with several calls is proved call by call; the expression is over the
			// caller's variables in the state after the call
			if cur == nil {
				return fail(i, "callpost outside func")
			}
			callee, r2 := splitWord(rest)
			label, src := splitLabel(r2)
			e, err := ParseExpr(src)
			if err != nil {
				return fail(i, "%v", err)
			}
			if cur.CallPost == nil {
				cur.CallPost = map[string][]Clause{}
			}
			cur.CallPost[callee] = append(cur.CallPost[callee], Clause{label, e, src})
		case "inlined":
			if cur != nil {
				cur.InlineOnly = true
			}
		case "noeffect":
			if cur != nil {
				cur.Pure = true
			}
		case "inline":
			// inline NAME[, NAME]: in this unit, calls of the named repo functions are executed by their bodies
			// (with their own loop contracts) instead of being replaced by their contracts
			if cur == nil {
				return fail(i, "inline outside func")
			}
			for _, p := range strings.Split(rest, ",") {
				cur.InlineCallees = append(cur.InlineCallees, strings.TrimSpace(p))
			}
		case "captures":
			if cur == nil {
				return fail(i, "captures outside func")
			}
			for _, p := range strings.Split(rest, ",") {
				cur.Captures = append(cur.Captures, Param{Name: strings.TrimSpace(p)})
			}
		case "loop":
			if cur == nil {
				return fail(i, "loop outside func")
			}
			var k int
			ks, r2 := splitWord(rest)
			if dot := strings.LastIndex(ks, "."); dot > 0 {
				// loop CALLEE.K invariant label: e  -- an extra invariant for loop K of an inlined callee
				w3, r3 := splitWord(r2)
				if w3 != "invariant" {
					return fail(i, "only invariants can be added to the loops of an inlined callee")
				}
				label, src := splitLabel(r3)
				e, err := ParseExpr(src)
				if err != nil {
					return fail(i, "%v", err)
				}
				if cur.ExtraLoops == nil {
					cur.ExtraLoops = map[string]*LoopSpec{}
				}
				if cur.ExtraLoops[ks] == nil {
					cur.ExtraLoops[ks] = &LoopSpec{}
				}
				cur.ExtraLoops[ks].Invariants = append(cur.ExtraLoops[ks].Invariants, Clause{label, e, src})
				break
			}
			if _, err := fmt.Sscanf(ks, "%d", &k); err != nil {
				return fail(i, "loop needs ordinal")
			}
			if cur.Loops == nil {
				cur.Loops = map[int]*LoopSpec{}
			}
			ls := cur.Loops[k]
			if ls == nil {
				ls = &LoopSpec{}
				cur.Loops[k] = ls
			}
			w3, r3 := splitWord(r2)
			switch w3 {
			case "invariant":
				label, src := splitLabel(r3)
				e, err := ParseExpr(src)
				if err != nil {
					return fail(i, "%v", err)
				}
				ls.Invariants = append(ls.Invariants, Clause{label, e, src})
			case "onexit":
				label, src := splitLabel(r3)
				e, err := ParseExpr(src)
				if err != nil {
					return fail(i, "%v", err)
				}
				ls.OnExit = append(ls.OnExit, Clause{label, e, src})
			case "step":
				// checked on every back edge: relates the end of an iteration to its head (prev)
				label, src := splitLabel(r3)
				e, err := ParseExpr(src)
				if err != nil {
					return fail(i, "%v", err)
				}
				ls.Steps = append(ls.Steps, Clause{label, e, src})
			case "hint":
				label, src := splitLabel(r3)
				e, err := ParseExpr(src)
				if err != nil {
					return fail(i, "%v", err)
				}
				ls.Hints = append(ls.Hints, Clause{label, e, src})
			case "decreases":
				e, err := ParseExpr(r3)
				if err != nil {
					return fail(i, "%v", err)
				}
				ls.Decreases = e
				ls.DecSrc = r3
			case "unroll", "bounded":
				var n int
				if _, err := fmt.Sscanf(strings.TrimSpace(r3), "%d", &n); err != nil {
					return fail(i, "unroll needs a count")
				}
				ls.Unroll = n
				ls.Bounded = w3 == "bounded"
			default:
				return fail(i, "unknown loop clause %q", w3)
			}
		case "dyntype":
			// dyntype PARAM TYPE: in this unit the interface parameter PARAM holds a value of dynamic type TYPE
			// (used to verify a library function for the one instantiation the repository uses)
			if cur == nil {
				return fail(i, "dyntype outside func")
			}
			pn, tn := splitWord(rest)
			if cur.DynTypes == nil {
				cur.DynTypes = map[string]string{}
			}
			cur.DynTypes[pn] = strings.TrimSpace(tn)
		case "given":
			// given i0, j0: universally quantified integer parameters of this contract. Inside the unit they are
			// arbitrary fixed integers (proving a clause for an arbitrary value proves it for all); at call sites the
			// clauses that mention them are not used.
			if cur == nil {
				return fail(i, "given outside func")
			}
			for _, p := range strings.Split(rest, ",") {
				cur.Given = append(cur.Given, strings.TrimSpace(p))
			}
		case "let":
			if cur == nil {
				return fail(i, "let outside func")
			}
			k := strings.Index(rest, "=")
			if k < 0 {
				return fail(i, "let needs '='")
			}
			name := strings.TrimSpace(rest[:k])
			e, err := ParseExpr(rest[k+1:])
			if err != nil {
				return fail(i, "%v", err)
			}
			if cur.LetExprs == nil {
				cur.LetExprs = map[string]Expr{}
			}
			cur.LetExprs[name] = e
			cur.Lets = append(cur.Lets, Param{Name: name, Type: rest[k+1:]})
		case "replay":
			if cur == nil {
				return fail(i, "replay outside func")
			}
			k := strings.Index(rest, ":")
			if k < 0 {
				cur.Replay = strings.TrimSpace(rest)
				break
			}
			cur.Replay = strings.TrimSpace(rest[:k])
			for _, kv := range splitTop(rest[k+1:], ',') {
				kv = strings.TrimSpace(kv)
				if kv == "" {
					continue
				}
				j := strings.Index(kv, "=")
				if j < 0 {
					return fail(i, "replay binding needs name=expr")
				}
				cur.ReplayKV = append(cur.ReplayKV, [2]string{strings.TrimSpace(kv[:j]), strings.TrimSpace(kv[j+1:])})
			}
		case "trusted":
			if cur != nil {
				cur.Trusted = true
			}
		default:
			return fail(i, "unknown clause %q", word)
		}
	}
	return nil
}

func splitWord(s string) (string, string) {
	s = strings.TrimSpace(s)
	for i, r := range s {
		if r == ' ' || r == '\t' {
			return s[:i], strings.TrimSpace(s[i:])
		}
	}
	return s, ""
}

// splitLabel splits "label: expr" (label is an identifier) or returns ("", s).
func splitLabel(s string) (string, string) {
	s = strings.TrimSpace(s)
	for i, r := range s {
		if r == ':' {
			return s[:i], strings.TrimSpace(s[i+1:])
		}
		if !(unicode.IsLetter(r) || unicode.IsDigit(r) || r == '_') {
			break
		}
	}
	return "", s
}

// splitTop splits on sep at nesting depth 0.
func splitTop(s string, sep rune) []string {
	var out []string
	d := 0
	last := 0
	inStr := false
	for i, r := range s {
		switch {
		case r == '"':
			inStr = !inStr
		case inStr:
		case r == '(' || r == '[' || r == '{':
			d++
		case r == ')' || r == ']' || r == '}':
			d--
		case r == sep && d == 0:
			out = append(out, s[last:i])
			last = i + 1
		}
	}
	out = append(out, s[last:])
	return out
}

func parseParamList(s string, typed bool) ([]Param, error) {
	s = strings.TrimSpace(s)
	if s == "" {
		return nil, nil
	}
	var out []Param
	for _, p := range splitTop(s, ',') {
		p = strings.TrimSpace(p)
		if p == "" {
			continue
		}
		name, ty := splitWord(p)
		if typed && ty == "" {
			return nil, fmt.Errorf("parameter %q needs a type", p)
		}
		out = append(out, Param{Name: name, Type: ty})
	}
	return out, nil
}

// matchParen returns the index of the ')' matching the '(' at s[i].
func matchParen(s string, i int) int {
	d := 0
	inStr := false
	for j := i; j < len(s); j++ {
		switch {
		case s[j] == '"':
			inStr = !inStr
		case inStr:
		case s[j] == '(':
			d++
		case s[j] == ')':
			d--
			if d == 0 {
				return j
			}
		}
	}
	return -1
}

func parsePure(rest, pkg string) (*PureFunc, error) {
	// NAME(params) RET = EXPR
	i := strings.Index(rest, "(")
	if i < 0 {
		return nil, fmt.Errorf("pure: expected '('")
	}
	name := strings.TrimSpace(rest[:i])
	j := matchParen(rest, i)
	if j < 0 {
		return nil, fmt.Errorf("pure: unbalanced parens")
	}
	ps, err := parseParamList(rest[i+1:j], true)
	if err != nil {
		return nil, err
	}
	k := strings.Index(rest[j:], "=")
	if k < 0 {
		return nil, fmt.Errorf("pure: expected '='")
	}
	// careful: first '=' that is not part of '==' etc. Since ret type precedes, take first '=' after j.
	ret := strings.TrimSpace(rest[j+1 : j+k])
	body, err := ParseExpr(rest[j+k+1:])
	if err != nil {
		return nil, err
	}
	return &PureFunc{Name: name, Params: ps, Ret: ret, Body: body, Pkg: pkg, Src: rest}, nil
}

func parseLemma(rest, pkg string) (*LemmaSpec, error) {
	// NAME(vars typed): EXPR
	i := strings.Index(rest, "(")
	if i < 0 {
		return nil, fmt.Errorf("lemma: expected '('")
	}
	name := strings.TrimSpace(rest[:i])
	j := matchParen(rest, i)
	ps, err := parseParamList(rest[i+1:j], true)
	if err != nil {
		return nil, err
	}
	r := strings.TrimSpace(rest[j+1:])
	if !strings.HasPrefix(r, ":") {
		return nil, fmt.Errorf("lemma: expected ':'")
	}
	body, err := ParseExpr(r[1:])
	if err != nil {
		return nil, err
	}
	return &LemmaSpec{Name: name, Vars: ps, Body: body, Pkg: pkg, Src: rest}, nil
}

func parseFuncHeader(rest string, extern bool) (*FuncSpec, error) {
	f := &FuncSpec{Extern: extern}
	rest = strings.TrimSpace(rest)
	if extern {
		// extern "full name" (params) (results)
		if !strings.HasPrefix(rest, "\"") {
			return nil, fmt.Errorf("extern needs a quoted full name")
		}
		k := strings.Index(rest[1:], "\"")
		if k < 0 {
			return nil, fmt.Errorf("extern: unterminated name")
		}
		f.Name = rest[1 : 1+k]
		rest = strings.TrimSpace(rest[k+2:])
	} else {
		if strings.HasPrefix(rest, "(") {
			j := matchParen(rest, 0)
			rn, rt := splitWord(rest[1:j])
			if rt == "" {
				rt = rn
				rn = "_"
			}
			f.RecvName = rn
			f.Recv = strings.ReplaceAll(rt, " ", "")
			rest = strings.TrimSpace(rest[j+1:])
		}
		i := strings.Index(rest, "(")
		if i < 0 {
			return nil, fmt.Errorf("func: expected '('")
		}
		f.Name = strings.TrimSpace(rest[:i])
		rest = rest[i:]
	}
	if !strings.HasPrefix(rest, "(") {
		return nil, fmt.Errorf("func %s: expected parameter list", f.Name)
	}
	j := matchParen(rest, 0)
	ps, err := parseParamList(rest[1:j], false)
	if err != nil {
		return nil, err
	}
	f.Params = ps
	rest = strings.TrimSpace(rest[j+1:])
	if strings.HasPrefix(rest, "(") {
		j = matchParen(rest, 0)
		rs, err := parseParamList(rest[1:j], false)
		if err != nil {
			return nil, err
		}
		f.Results = rs
	}
	return f, nil
}

func parseModLoc(s string) (ModLoc, error) {
	ml := ModLoc{Src: s}
	if strings.HasPrefix(s, "sent(") && strings.HasSuffix(s, ")") {
		e, err := ParseExpr(s[5 : len(s)-1])
		if err != nil {
			return ml, err
		}
		ml.E, ml.Kind = e, "chan"
		return ml, nil
	}
	if k := strings.Index(s, "[*].(*"); k >= 0 {
		// X[*].(*T).f : field f of every element (interface to *T) of slice X
		rest := s[k+len("[*].("):]
		j := strings.Index(rest, ").")
		if j < 0 {
			return ml, fmt.Errorf("modifies: malformed each-form %q", s)
		}
		e, err := ParseExpr(s[:k])
		if err != nil {
			return ml, err
		}
		ml.E, ml.Kind = e, "eachfield"
		ml.CastType = rest[:j]
		ml.Field = rest[j+2:]
		return ml, nil
	}
	switch {
	case strings.HasSuffix(s, "[*]"):
		e, err := ParseExpr(strings.TrimSuffix(s, "[*]"))
		if err != nil {
			return ml, err
		}
		ml.E, ml.Kind = e, "elems"
	case strings.HasSuffix(s, ".*"):
		e, err := ParseExpr(strings.TrimSuffix(s, ".*"))
		if err != nil {
			return ml, err
		}
		ml.E, ml.Kind = e, "allfields"
	case strings.HasPrefix(s, "*"):
		e, err := ParseExpr(s[1:])
		if err != nil {
			return ml, err
		}
		ml.E, ml.Kind = e, "cell"
	default:
		e, err := ParseExpr(s)
		if err != nil {
			return ml, err
		}
		switch x := e.(type) {
		case EIdent:
			if strings.HasPrefix(x.Name, "$") {
				ml.E, ml.Kind = e, "ghostglobal"
				return ml, nil
			}
			// a package-level variable of the function's package
			ml.E, ml.Kind = e, "global"
			return ml, nil
		case ESlice:
			ml.E, ml.Kind, ml.Lo, ml.Hi = x.X, "range", x.Lo, x.Hi
		case ESel:
			ml.E, ml.Kind = e, "field"
		default:
			return ml, fmt.Errorf("modifies: unsupported location %q", s)
		}
	}
	return ml, nil
}

// LoadRepoContracts loads every zz_verif_contracts.go under repoDir and every
// *.spec under modelsDir.
func LoadSpecs(repoDir, modelsDir string) (*SpecDB, error) {
	db := NewSpecDB()
	var files []string
	_ = filepath.Walk(repoDir, func(p string, info os.FileInfo, err error) error {
		if err != nil {
			return nil
		}
		if info.IsDir() && (info.Name() == ".git" || info.Name() == "vendor") {
			return filepath.SkipDir
		}
		if !info.IsDir() && info.Name() == "zz_verif_contracts.go" {
			files = append(files, p)
		}
		return nil
	})
	for _, f := range files {
		rel, _ := filepath.Rel(repoDir, filepath.Dir(f))
		pkg := RepoModule + "/" + filepath.ToSlash(rel)
		if err := db.LoadFile(f, pkg); err != nil {
			return nil, err
		}
	}
	ms, _ := filepath.Glob(filepath.Join(modelsDir, "*.spec"))
	for _, m := range ms {
		if err := db.LoadFile(m, ""); err != nil {
			return nil, err
		}
	}
	// lint: a contract that declares no effect cannot promise freshly allocated results
	for _, f := range db.Funcs {
		if !f.Pure {
			continue
		}
		for _, e := range f.Ensures {
			if strings.Contains(e.Src, "fresh(") {
				return nil, fmt.Errorf("contract %s: `noeffect` contradicts fresh() in ensures %s (allocation is an effect)", f.Key(), e.Label)
			}
		}
	}
	return db, nil
}
