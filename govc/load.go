package govc

// Front end: load /repo's working tree (build tag verif) and build go/ssa (DESIGN §3.1).

import (
	"crypto/sha256"
	"encoding/hex"
	"fmt"
	"go/ast"
	"go/token"
	"go/types"
	"os"
	"sort"
	"strings"

	"golang.org/x/tools/go/packages"
	"golang.org/x/tools/go/ssa"
	"golang.org/x/tools/go/ssa/ssautil"
)

const RepoModule = "github.com/vmware/go-ipfix"

type World struct {
	Prog     *ssa.Program
	Pkgs     []*packages.Package
	SSAPkgs  map[string]*ssa.Package // by import path
	Fset     *token.FileSet
	RepoDir  string
	typeTags map[string]int // closed-world type tags (type string -> tag)
	tagTypes []types.Type
	Specs    *SpecDB
	byValue  map[string]bool
}

func LoadWorld(repoDir string, patterns []string) (*World, error) {
	cfg := &packages.Config{
		Mode:       packages.LoadAllSyntax,
		Dir:        repoDir,
		BuildFlags: []string{"-tags=verif"},
		Env:        append(os.Environ(), "GOFLAGS=-mod=mod", "GOPROXY=off", "GOSUMDB=off", "GOTOOLCHAIN=local"),
	}
	pkgs, err := packages.Load(cfg, patterns...)
	if err != nil {
		return nil, err
	}
	var errs []string
	packages.Visit(pkgs, nil, func(p *packages.Package) {
		if strings.HasPrefix(p.PkgPath, RepoModule) {
			for _, e := range p.Errors {
				errs = append(errs, e.Error())
			}
		}
	})
	if len(errs) > 0 {
		return nil, fmt.Errorf("load errors: %s", strings.Join(errs, "; "))
	}
	prog, _ := ssautil.AllPackages(pkgs, ssa.InstantiateGenerics|ssa.GlobalDebug)
	prog.Build()
	w := &World{Prog: prog, Pkgs: pkgs, SSAPkgs: map[string]*ssa.Package{}, RepoDir: repoDir, typeTags: map[string]int{}}
	w.tagTypes = append(w.tagTypes, nil) // tag 0 = nil interface
	for _, p := range prog.AllPackages() {
		w.SSAPkgs[p.Pkg.Path()] = p
	}
	if len(pkgs) > 0 {
		w.Fset = pkgs[0].Fset
	}
	return w, nil
}

func (w *World) IsRepoPkg(p *types.Package) bool {
	return p != nil && strings.HasPrefix(p.Path(), RepoModule)
}

// TypeTag returns the closed-world tag for a concrete dynamic type.
func (w *World) TypeTag(t types.Type) int {
	k := types.TypeString(t, nil)
	if n, ok := w.typeTags[k]; ok {
		return n
	}
	n := len(w.tagTypes)
	w.typeTags[k] = n
	w.tagTypes = append(w.tagTypes, t)
	return n
}

// Implementers lists, deterministically, the concrete types declared in the
// repo's loaded non-test packages whose method set implements iface (A-CLOSED).
func (w *World) Implementers(iface *types.Interface) []types.Type {
	var out []types.Type
	var paths []string
	for p := range w.SSAPkgs {
		if strings.HasPrefix(p, RepoModule) && !strings.Contains(p, "/testing") && !strings.HasSuffix(p, "/test") {
			paths = append(paths, p)
		}
	}
	sort.Strings(paths)
	for _, p := range paths {
		sp := w.SSAPkgs[p]
		var names []string
		for n := range sp.Members {
			names = append(names, n)
		}
		sort.Strings(names)
		for _, n := range names {
			tm, ok := sp.Members[n].(*ssa.Type)
			if !ok {
				continue
			}
			T := tm.Type()
			if types.IsInterface(T) {
				continue
			}
			if embedsInterface(T, iface) {
				// a struct that "implements" the interface only by embedding a value of it
				// (baseRecord embeds Record) is a base for concrete types, never a dynamic type itself
				continue
			}
			if types.Implements(T, iface) {
				out = append(out, T)
			} else if pt := types.NewPointer(T); types.Implements(pt, iface) {
				out = append(out, pt)
			}
		}
	}
	return out
}

// FindFunc resolves "pkgpath.Func" or "pkgpath.(*T).Method" / "pkgpath.(T).Method" / "pkgpath.Func$1".
func (w *World) FindFunc(pkgPath, recv, name string) *ssa.Function {
	sp := w.SSAPkgs[pkgPath]
	if sp == nil {
		return nil
	}
	closure := ""
	if i := strings.Index(name, "$"); i >= 0 {
		closure = name[i:]
		name = name[:i]
	}
	var fn *ssa.Function
	if recv == "" {
		fn = sp.Func(name)
	} else {
		ptr := strings.HasPrefix(recv, "*")
		tn := strings.TrimPrefix(recv, "*")
		tm, ok := sp.Members[tn].(*ssa.Type)
		if !ok {
			return nil
		}
		var T types.Type = tm.Type()
		if ptr {
			T = types.NewPointer(T)
		}
		sel := w.Prog.MethodSets.MethodSet(T).Lookup(sp.Pkg, name)
		if sel == nil {
			return nil
		}
		fn = w.Prog.MethodValue(sel)
	}
	if fn == nil || closure == "" {
		return fn
	}
	// closures: $1, $1$2 ...
	for _, part := range strings.Split(strings.TrimPrefix(closure, "$"), "$") {
		var idx int
		fmt.Sscanf(part, "%d", &idx)
		if idx < 1 || idx > len(fn.AnonFuncs) {
			return nil
		}
		fn = fn.AnonFuncs[idx-1]
	}
	return fn
}

// SourceHash returns the sha256 of the function's source text and its SSA size.
func (w *World) SourceHash(fn *ssa.Function) (string, int) {
	n := 0
	for _, b := range fn.Blocks {
		n += len(b.Instrs)
	}
	syn := fn.Syntax()
	if syn == nil || w.Fset == nil {
		return "", n
	}
	start := w.Fset.Position(syn.Pos())
	end := w.Fset.Position(syn.End())
	data, err := os.ReadFile(start.Filename)
	if err != nil || end.Offset > len(data) {
		return "", n
	}
	h := sha256.Sum256(data[start.Offset:end.Offset])
	return hex.EncodeToString(h[:8]), n
}

// loopKeywordCount counts for/range statements in fn's own body (closures excluded).
func loopKeywordCount(fn *ssa.Function) int {
	syn := fn.Syntax()
	if syn == nil {
		return -1
	}
	var body *ast.BlockStmt
	switch s := syn.(type) {
	case *ast.FuncDecl:
		body = s.Body
	case *ast.FuncLit:
		body = s.Body
	}
	if body == nil {
		return -1
	}
	n := 0
	ast.Inspect(body, func(nd ast.Node) bool {
		switch nd.(type) {
		case *ast.FuncLit:
			return false
		case *ast.ForStmt, *ast.RangeStmt:
			n++
		}
		return true
	})
	return n
}

func ssautilAll(w *World) map[*ssa.Function]bool { return ssautil.AllFunctions(w.Prog) }

func embedsInterface(T types.Type, iface *types.Interface) bool {
	st, ok := T.Underlying().(*types.Struct)
	if !ok {
		return false
	}
	for i := 0; i < st.NumFields(); i++ {
		f := st.Field(i)
		if f.Embedded() {
			if fi, ok := f.Type().Underlying().(*types.Interface); ok && types.Identical(fi, iface) {
				return true
			}
		}
	}
	return false
}

// usedByValue: is named struct type n used as a by-value field (embedded or
// not) of some struct in the loaded program? Such structs share their parent's
// address in the heap model.
func (w *World) usedByValue(n *types.Named) bool {
	if w.byValue == nil {
		w.byValue = map[string]bool{}
		for _, p := range w.Prog.AllPackages() {
			for _, m := range p.Members {
				tm, ok := m.(*ssa.Type)
				if !ok {
					continue
				}
				st, ok := tm.Type().Underlying().(*types.Struct)
				if !ok {
					continue
				}
				for i := 0; i < st.NumFields(); i++ {
					ft := types.Unalias(st.Field(i).Type())
					if fn, ok := ft.(*types.Named); ok {
						if _, isS := fn.Underlying().(*types.Struct); isS {
							w.byValue[qualName(fn)] = true
						}
					}
				}
			}
		}
	}
	return w.byValue[qualName(n)]
}
