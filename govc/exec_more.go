package govc

// Maps, channels, range, select, lock discipline and the native model of util.Decode.

import (
	"fmt"
	"go/types"
	"strings"

	"golang.org/x/tools/go/ssa"
)

// ---------------- maps ----------------

func (x *Exec) mapKeys(mt *types.Map) map[string]Sort {
	out := map[string]Sort{}
	out[compKeyMap(mt, ".has")] = ArrSort(SInt, ArrSort(SInt, SBool))
	out[compKeyMap(mt, ".len")] = ArrSort(SInt, SInt)
	for _, l := range x.Sh.Leaves(mt.Elem()) {
		out[compKeyMap(mt, ".val"+l.Suffix)] = ArrSort(SInt, ArrSort(SInt, l.Sort))
	}
	return out
}

// keyTerm encodes a map key as an Int (injectively).
func (x *Exec) keyTerm(st *State, kv Val, kt types.Type) *Term {
	c := x.C
	switch k := kv.(type) {
	case VInt:
		return k.T
	case VBool:
		return c.Ite(k.T, c.Int(1), c.Int(0))
	case VStruct:
		ts := x.Sh.Flatten(kv)
		srt := make([]Sort, len(ts))
		for i, t := range ts {
			srt[i] = t.sort
		}
		name := "mkkey!" + typeName(kt)
		f := c.Fun(name, srt, SInt)
		key := c.Apply(f, ts...)
		for i := range ts {
			pf := c.Fun(fmt.Sprintf("keyproj%d!%s", i, typeName(kt)), []Sort{SInt}, srt[i])
			x.assume(st, c.Eq(c.Apply(pf, key), ts[i]))
		}
		return key
	case VIface:
		f := c.Fun("mkkey!iface", []Sort{SInt, SInt}, SInt)
		return c.Apply(f, k.Tag, k.Val)
	}
	panic(unsupported(fmt.Sprintf("map key %T", kv)))
}

func (x *Exec) keyVal(st *State, key *Term, kt types.Type) Val {
	c := x.C
	ls := x.Sh.Leaves(kt)
	if len(ls) == 1 && structOf(kt) == nil {
		if ls[0].Sort == SBool {
			return VBool{c.Eq(key, c.Int(1))}
		}
		return VInt{key}
	}
	ts := make([]*Term, len(ls))
	for i, l := range ls {
		pf := c.Fun(fmt.Sprintf("keyproj%d!%s", i, typeName(kt)), []Sort{SInt}, l.Sort)
		ts[i] = c.Apply(pf, key)
	}
	v := x.Sh.Unflatten(kt, ts)
	// key == mkkey(proj(key)) for keys obtained from the map
	srt := make([]Sort, len(ts))
	for i, t := range ts {
		srt[i] = t.sort
	}
	f := c.Fun("mkkey!"+typeName(kt), srt, SInt)
	x.assume(st, c.Eq(c.Apply(f, ts...), key))
	x.assume(st, x.typeInv(st, v, kt))
	return v
}

func (x *Exec) mapComp(st *State, mt *types.Map, what string, leaf Sort) (string, *Term) {
	key := compKeyMap(mt, what)
	if strings.HasPrefix(what, ".val") {
		for _, l := range x.Sh.Leaves(mt.Elem()) {
			if ".val"+l.Suffix == what {
				x.noteLeaf(key, l)
			}
		}
	}
	var s Sort
	if what == ".len" {
		x.mapLenKeys[key] = true
		s = ArrSort(SInt, SInt)
	} else {
		s = ArrSort(SInt, ArrSort(SInt, leaf))
	}
	return key, x.heapGet(st, key, s)
}

func (x *Exec) newMap(st *State, mt *types.Map) *Term {
	c := x.C
	id := x.allocAddr(st)
	k, has := x.mapComp(st, mt, ".has", SBool)
	x.heapSet(st, k, c.Store(has, id, x.zeroArray(SBool, c.False())))
	k, ln := x.mapComp(st, mt, ".len", SInt)
	x.heapSet(st, k, c.Store(ln, id, c.Int(0)))
	return id
}

func (x *Exec) mapLen(st *State, mt *types.Map, m *Term) *Term {
	c := x.C
	_, ln := x.mapComp(st, mt, ".len", SInt)
	l := c.Select(ln, m)
	x.assume(st, c.And(c.Le(c.Int(0), l), c.Implies(c.Eq(m, c.Int(0)), c.Eq(l, c.Int(0)))))
	// model invariant of maps: the size is the number of present keys; in particular a present key implies size > 0
	_, has := x.mapComp(st, mt, ".has", SBool)
	k := c.NewBound("k", SInt)
	sel := c.Select(c.Select(has, m), k)
	x.assume(st, c.Forall([]*Term{k}, c.Implies(sel, c.Lt(c.Int(0), l)), []*Term{sel}))
	return l
}

func (x *Exec) mapHas(st *State, mt *types.Map, m, key *Term) *Term {
	c := x.C
	_, has := x.mapComp(st, mt, ".has", SBool)
	h := c.And(c.Ne(m, c.Int(0)), c.Select(c.Select(has, m), key))
	return h
}

func (x *Exec) mapGet(st *State, mt *types.Map, m, key *Term) Val {
	c := x.C
	ls := x.Sh.Leaves(mt.Elem())
	ts := make([]*Term, len(ls))
	for i, l := range ls {
		_, comp := x.mapComp(st, mt, ".val"+l.Suffix, l.Sort)
		ts[i] = c.Select(c.Select(comp, m), key)
	}
	return x.Sh.Unflatten(mt.Elem(), ts)
}

func (x *Exec) lookup(fr *Frame, st *State, t *ssa.Lookup) Val {
	c := x.C
	mt, ok := t.X.Type().Underlying().(*types.Map)
	if !ok {
		// string index
		s := x.val(fr, t.X).(VInt).T
		idx := x.val(fr, t.Index).(VInt).T
		x.oblige(st, "safe:index", "strindex", x.siteOf(fr, t), "string index in range", c.InRange(idx, c.Int(0), x.slen(s)))
		return VInt{x.sat(s, idx)}
	}
	m := x.val(fr, t.X).(VInt).T
	key := x.keyTerm(st, x.val(fr, t.Index), mt.Key())
	x.lockNote(st, mt)
	has := x.mapHas(st, mt, m, key)
	// instantiate: a present key implies a positive size
	x.assume(st, c.Implies(has, c.Lt(c.Int(0), x.mapLen(st, mt, m))))
	got := x.mapGet(st, mt, m, key)
	x.assume(st, c.Implies(has, x.typeInv(st, got, mt.Elem())))
	v := x.iteVal(has, got, x.zero(mt.Elem()))
	if t.CommaOk {
		return VStruct{[]Val{v, VBool{has}}}
	}
	return v
}

func (x *Exec) lockNote(st *State, mt *types.Map) {}

func (x *Exec) mapUpdate(fr *Frame, st *State, t *ssa.MapUpdate) {
	mt := t.Map.Type().Underlying().(*types.Map)
	m := x.val(fr, t.Map).(VInt).T
	key := x.keyTerm(st, x.val(fr, t.Key), mt.Key())
	x.mapStore(st, mt, m, key, x.val(fr, t.Value), x.siteOf(fr, t))
}

func (x *Exec) mapStore(st *State, mt *types.Map, m, key *Term, v Val, site string) {
	c := x.C
	x.oblige(st, "safe:nil", "mapassign", site, "assignment to entry in nil map", c.Ne(m, c.Int(0)))
	had := x.mapHas(st, mt, m, key)
	k, has := x.mapComp(st, mt, ".has", SBool)
	x.frameCheckObj(st, k, m)
	x.heapSet(st, k, c.Store(has, m, c.Store(c.Select(has, m), key, c.True())))
	k, ln := x.mapComp(st, mt, ".len", SInt)
	old := c.Select(ln, m)
	x.heapSet(st, k, c.Store(ln, m, c.Ite(had, old, c.Add(old, c.Int(1)))))
	ts := x.Sh.Flatten(v)
	for i, l := range x.Sh.Leaves(mt.Elem()) {
		k, comp := x.mapComp(st, mt, ".val"+l.Suffix, l.Sort)
		x.heapSet(st, k, c.Store(comp, m, c.Store(c.Select(comp, m), key, ts[i])))
	}
}

func (x *Exec) mapDelete(st *State, mt *types.Map, m *Term, kv Val, site string) {
	c := x.C
	key := x.keyTerm(st, kv, mt.Key())
	had := x.mapHas(st, mt, m, key)
	k, has := x.mapComp(st, mt, ".has", SBool)
	// delete on a nil map is a no-op
	nonnil := c.Ne(m, c.Int(0))
	if x.frameActive() && !x.isFreshTerm(m) {
		x.oblige(st, "frame", k, site, "map delete within the modifies clause",
			c.Implies(had, c.Or(c.Gt(m, x.entryAlloc()), x.inModObj(x.mods, k, m))))
	}
	x.heapSet(st, k, c.Ite(nonnil, c.Store(has, m, c.Store(c.Select(has, m), key, c.False())), has))
	k, ln := x.mapComp(st, mt, ".len", SInt)
	old := c.Select(ln, m)
	x.heapSet(st, k, c.Store(ln, m, c.Ite(had, c.Sub(old, c.Int(1)), old)))
}

// ---------------- range / next ----------------

type rangeIter struct {
	mt *types.Map
	m  *Term
	n  int
}

func (x *Exec) rangeInit(fr *Frame, st *State, t *ssa.Range) Val {
	if mt, ok := t.X.Type().Underlying().(*types.Map); ok {
		x.iters = append(x.iters, rangeIter{mt: mt, m: x.val(fr, t.X).(VInt).T})
		return VInt{x.C.Int(int64(len(x.iters) - 1))}
	}
	panic(unsupported("range over " + t.X.Type().String()))
}

func (x *Exec) rangeNext(fr *Frame, st *State, t *ssa.Next) Val {
	c := x.C
	if t.IsString {
		panic(unsupported("range over string"))
	}
	itv := x.val(fr, t.Iter).(VInt).T
	if itv.ival == nil {
		panic(unsupported("symbolic map iterator"))
	}
	it := x.iters[int(itv.ival.Int64())]
	x.note("range over map: iteration order and each-entry-once are abstracted (arbitrary present key per iteration)")
	ok := c.Fresh("mapnext.ok", SBool)
	key := c.Fresh("mapnext.key", SInt)
	has := x.mapHas(st, it.mt, it.m, key)
	x.assume(st, c.Implies(ok, has))
	kval := x.keyVal(st, key, it.mt.Key())
	// a key that is present in the map is a value of the key type (e.g. within 0..65535 for uint16)
	x.assume(st, c.Implies(ok, x.typeInv(st, kval, it.mt.Key())))
	got := x.mapGet(st, it.mt, it.m, key)
	x.assume(st, c.Implies(ok, x.typeInv(st, got, it.mt.Elem())))
	return VStruct{[]Val{VBool{ok}, kval, got}}
}

// ---------------- channels / select ----------------

func (x *Exec) chanComp(st *State, elem types.Type, what string, leaf Sort) (string, *Term) {
	key := "C!" + typeName(elem) + what
	if what == ".n" {
		return key, x.heapGet(st, key, ArrSort(SInt, SInt))
	}
	return key, x.heapGet(st, key, ArrSort(SInt, ArrSort(SInt, leaf)))
}

// chanSend appends the value to the channel's ghost log of sent values.
func (x *Exec) chanSend(fr *Frame, st *State, t *ssa.Send) {
	c := x.C
	ch := x.val(fr, t.Chan).(VInt).T
	elem := t.Chan.Type().Underlying().(*types.Chan).Elem()
	v := x.val(fr, t.X)
	kn, n := x.chanComp(st, elem, ".n", SInt)
	cnt := c.Select(n, ch)
	ts := x.Sh.Flatten(v)
	for i, l := range x.Sh.Leaves(elem) {
		k, comp := x.chanComp(st, elem, ".log"+l.Suffix, l.Sort)
		x.heapSet(st, k, c.Store(comp, ch, c.Store(c.Select(comp, ch), cnt, ts[i])))
	}
	x.heapSet(st, kn, c.Store(n, ch, c.Add(cnt, c.Int(1))))
	x.note("channel send modelled as append to the channel's ghost log (blocking/ordering across goroutines not modelled)")
}

func (x *Exec) chanRecv(fr *Frame, st *State, t *ssa.UnOp, ch Val) Val {
	elem := t.X.Type().Underlying().(*types.Chan).Elem()
	x.note("channel receive yields an arbitrary value (producer not modelled)")
	v := x.symbolic("recv", elem)
	x.assume(st, x.typeInv(st, v, elem))
	if t.CommaOk {
		return VStruct{[]Val{v, VBool{x.C.Fresh("recv.ok", SBool)}}}
	}
	return v
}

func (x *Exec) selectOp(fr *Frame, st *State, t *ssa.Select) Val {
	c := x.C
	x.note("select modelled as non-deterministic choice")
	idx := c.Fresh("select.idx", SInt)
	lo := c.Int(0)
	if !t.Blocking {
		lo = c.Int(-1)
	}
	x.assume(st, c.InRange(idx, lo, c.Int(int64(len(t.States)))))
	vals := []Val{VInt{idx}, VBool{c.Fresh("select.ok", SBool)}}
	for _, s := range t.States {
		if s.Dir == types.RecvOnly {
			elem := s.Chan.Type().Underlying().(*types.Chan).Elem()
			v := x.symbolic("select.recv", elem)
			x.assume(st, x.typeInv(st, v, elem))
			vals = append(vals, v)
		}
	}
	return VStruct{vals}
}

// ---------------- lock discipline (DESIGN §3.8) ----------------

// lockCheck: an access to a guarded field requires the guarding mutex of the
// same object to be held (exclusively for writes).
func (x *Exec) lockCheck(st *State, owner, field string, write bool, site string) {
	if x.dry || !x.checkLocks {
		return
	}
	// set by access through PField; the object address is needed: handled in lockCheckObj
}

func (x *Exec) lockCheckObj(st *State, owner, field string, obj *Term, write bool, site string) {
	if x.dry || !x.checkLocks {
		return
	}
	c := x.C
	for _, g := range x.W.Specs.Guards {
		for _, f := range g.Fields {
			if f != owner+"."+field {
				continue
			}
			// mutex: "T.mutexField"; its ghost state lives at the same address
			mt := x.guardMutexType(g.Mutex)
			if mt == "" {
				continue
			}
			held := c.Select(x.heapGet(st, "H!"+mt+".$held", ArrSort(SInt, SBool)), obj)
			cond := held
			if !write {
				rheld := c.Select(x.heapGet(st, "H!"+mt+".$rheld", ArrSort(SInt, SBool)), obj)
				cond = c.Or(held, rheld)
			}
			kind := "read"
			if write {
				kind = "write"
			}
			x.oblige(st, "lock", owner+"."+field+":"+kind, site, "guarded field accessed with "+g.Mutex+" held", cond)
		}
	}
}

func (x *Exec) guardMutexType(m string) string {
	// m = "pkg.T.field": find the field's type name
	i := strings.LastIndex(m, ".")
	if i < 0 {
		return ""
	}
	tn, fn := m[:i], m[i+1:]
	for _, p := range x.W.SSAPkgs {
		if !x.W.IsRepoPkg(p.Pkg) {
			continue
		}
		for name, mem := range p.Members {
			tm, ok := mem.(*ssa.Type)
			if !ok {
				continue
			}
			if qualName(tm.Type().(*types.Named)) != tn && name != tn {
				continue
			}
			if s := structOf(tm.Type()); s != nil {
				for k := 0; k < s.NumFields(); k++ {
					if s.Field(k).Name() == fn {
						return ownerName(s.Field(k).Type())
					}
				}
			}
		}
	}
	return ""
}

// ---------------- util.Decode / binary.Read model ----------------

func (x *Exec) bytesBufferType() types.Type {
	for _, p := range x.W.Prog.AllPackages() {
		if p.Pkg.Path() == "bytes" {
			if tm, ok := p.Members["Buffer"].(*ssa.Type); ok {
				return tm.Type()
			}
		}
	}
	panic(unsupported("bytes.Buffer type not loaded"))
}

// beValue: big-endian value of n bytes at absolute index off of inner array.
func (x *Exec) beValue(inner *Term, off *Term, n int) *Term {
	c := x.C
	r := c.Select(inner, off)
	for i := 1; i < n; i++ {
		r = c.Add(c.Mul(r, c.Int(256)), c.Select(inner, c.Add(off, c.Int(int64(i)))))
	}
	return r
}

// modelDecode: util.Decode(buffer, order, outputs...) over the bytes.Buffer
// ghost model: per output in order, width from the static pointee type; if
// enough bytes remain, the big-endian value is stored and the buffer advances;
// otherwise an error is returned and the buffer is drained (binary.Read uses
// io.ReadFull). DESIGN §3.7.
func (x *Exec) modelDecode(fr *Frame, st *State, args []Val, site string) Val {
	c := x.C
	rd := args[0].(VIface)
	BT := x.bytesBufferType()
	x.oblige(st, "pre", "util.Decode.reader", site, "reader is a *bytes.Buffer (model)", c.Eq(rd.Tag, c.Int(int64(x.W.TypeTag(types.NewPointer(BT))))))
	bp := rd.Val
	fi, ok := x.fieldByName(BT, "$buf")
	if !ok {
		panic(unsupported("bytes.Buffer ghost field $buf not declared (models/bytes.spec)"))
	}
	outs := args[2].(VSlice)
	if outs.Len.ival == nil {
		panic(unsupported("util.Decode with symbolic number of outputs"))
	}
	n := int(outs.Len.ival.Int64())
	anyT := types.NewInterfaceType(nil, nil)
	byteT := types.Typ[types.Uint8]
	alive := c.True()
	for k := 0; k < n; k++ {
		var at *Term
		if outs.Off.ival != nil {
			at = c.Add(outs.Off, c.Int(int64(k))) // literal position: folds against the stores that built the argument list
		} else {
			at = x.slot(outs.Off, c.Int(int64(k)))
		}
		ov := x.loadElem(st, anyT, outs.Arr, at).(VIface)
		p, isPtr := x.unboxPtr(ov.Val)
		if !isPtr {
			panic(unsupported("util.Decode output is not a local pointer"))
		}
		buf := x.loadField(st, BT, fi, bp).(VSlice)
		_, comp := x.elemsComp(st, byteT, x.Sh.Leaves(byteT)[0])
		inner := c.Select(comp, buf.Arr)
		var width *Term
		var decoded Val
		var sliceTarget *VSlice
		switch et := types.Unalias(p.Elem).Underlying().(type) {
		case *types.Basic:
			w := int(bitsOf(et) / 8)
			width = c.Int(int64(w))
			v := x.beValue(inner, buf.Off, w)
			if !isUnsigned(et) {
				v = x.wrap(v, et)
			}
			decoded = VInt{v}
		case *types.Slice:
			cur := x.load(fr, st, p, site).(VSlice)
			width = cur.Len
			sliceTarget = &cur
		default:
			panic(unsupported("util.Decode output of type " + p.Elem.String()))
		}
		okk := c.Le(width, buf.Len)
		doit := c.And(alive, okk)
		fail := c.And(alive, c.Not(okk))
		// assign on success
		if sliceTarget != nil {
			// copy width bytes into the target slice's backing array
			key, comp2 := x.elemsComp(st, byteT, x.Sh.Leaves(byteT)[0])
			oldInner := c.Select(comp2, sliceTarget.Arr)
			np := c.Fresh("arr!decode", ArrSort(SInt, SInt))
			i := c.NewBound("i", SInt)
			sel := c.Select(np, i)
			rel := c.Sub(i, sliceTarget.Off)
			in := c.InRange(rel, c.Int(0), width)
			x.assume(st, c.Forall([]*Term{i}, c.And(
				c.Implies(in, c.Eq(sel, c.Select(inner, c.Add(buf.Off, rel)))),
				c.Implies(c.Not(in), c.Eq(sel, c.Select(oldInner, i)))), []*Term{sel}))
			if !x.dry {
				x.frameCheckElemRange(st, key, sliceTarget.Arr, sliceTarget.Off, c.Add(sliceTarget.Off, width), doit, site)
			}
			x.heapSet(st, key, c.Ite(doit, c.Store(comp2, sliceTarget.Arr, np), comp2))
		} else {
			old := x.load(fr, st, p, site)
			nv := x.iteVal(doit, decoded, old)
			sub := st.Clone()
			x.storeNoCheck(fr, sub, p, nv)
			*st = *sub
		}
		// advance / drain
		adv := VSlice{buf.Arr, c.Add(buf.Off, width), c.Sub(buf.Len, width), c.Sub(buf.Cap, width)}
		drained := VSlice{buf.Arr, c.Add(buf.Off, buf.Len), c.Int(0), c.Sub(buf.Cap, buf.Len)}
		nb := x.iteVal(doit, adv, x.iteVal(fail, drained, buf))
		x.storeField(st, BT, fi, bp, nb)
		alive = doit
	}
	errV := x.errNonNil(st).(VIface)
	res := x.iteVal(alive, VIface{c.Int(0), c.Int(0)}, errV)
	return res
}

func (x *Exec) storeNoCheck(fr *Frame, st *State, p VPtr, v Val) {
	saved := x.checkFrames
	x.checkFrames = false
	x.store(fr, st, p, v, nil)
	x.checkFrames = saved
}

func (x *Exec) storeFieldNoCheck(st *State, T types.Type, fi FieldInfo, p *Term, v Val) {
	saved := x.checkFrames
	x.checkFrames = false
	x.storeField(st, T, fi, p, v)
	x.checkFrames = saved
}
