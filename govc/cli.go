package govc

import (
	"flag"
	"fmt"
	"os"
	"sort"
	"strings"
)

func Main(args []string) int {
	if len(args) == 0 {
		fmt.Println("usage: govc unit|check|replay ...")
		return 2
	}
	switch args[0] {
	case "unit":
		return cmdUnit(args[1:])
	case "check":
		return cmdCheck(args[1:])
	case "replay":
		return cmdReplay(args[1:])
	case "ssa":
		return cmdSSA(args[1:])
	}
	fmt.Println("unknown command", args[0])
	return 2
}

func repoPatterns() []string {
	return []string{"./pkg/...", "./cmd/..."}
}

func cmdUnit(args []string) int {
	fs := flag.NewFlagSet("unit", flag.ExitOnError)
	repo := fs.String("repo", "/repo", "repository")
	models := fs.String("models", "/verif/models", "models dir")
	timeout := fs.Int("t", 10, "timeout per obligation")
	verbose := fs.Bool("v", false, "verbose")
	keep := fs.String("keep", "", "keep scripts in dir")
	frames := fs.Bool("frames", true, "check frames")
	locks := fs.Bool("locks", false, "check locks")
	pk := fs.String("pkgs", "", "comma separated package patterns")
	qid := fs.Bool("qid", false, "name quantifiers for z3 qi.profile")
	fs.Parse(args)
	qidOn = *qid
	pats := repoPatterns()
	if *pk != "" {
		pats = strings.Split(*pk, ",")
	}
	w, err := LoadWorld(*repo, pats)
	if err != nil {
		fmt.Println("load:", err)
		return 2
	}
	db, err := LoadSpecs(*repo, *models)
	if err != nil {
		fmt.Println("specs:", err)
		return 2
	}
	w.Specs = db
	var units []*UnitResult
	var keys []string
	for k := range db.Funcs {
		keys = append(keys, k)
	}
	sort.Strings(keys)
	for _, k := range keys {
		sp := db.Funcs[k]
		if sp.InlineOnly {
			continue
		}
		if sp.Extern && (len(fs.Args()) == 0 || w.ResolveSpecFunc(sp) == nil) {
			// library contracts are assumptions; those whose function has a body can be verified when named explicitly
			continue
		}
		match := len(fs.Args()) == 0
		for _, a := range fs.Args() {
			if strings.Contains(k, a) {
				match = true
			}
		}
		if !match {
			continue
		}
		u := GenerateUnit(w, sp, UnitOpts{CheckFrames: *frames, CheckLocks: *locks})
		units = append(units, u)
		fmt.Printf("unit %s: %d obligations, gen %.2fs err=%q\n", u.Name, len(u.Obligs), u.GenSecs, u.Err)
		for _, n := range u.Notes {
			fmt.Println("   note:", n)
		}
	}
	for _, lm := range db.Lemmas {
		for _, a := range fs.Args() {
			if strings.Contains("lemma:"+lm.Name, a) {
				u := GenerateLemma(w, lm)
				units = append(units, u)
				fmt.Printf("lemma %s: %d obligations err=%q\n", lm.Name, len(u.Obligs), u.Err)
			}
		}
	}
	scratch := *keep
	if scratch == "" {
		scratch, _ = os.MkdirTemp("", "govc")
		defer os.RemoveAll(scratch)
	} else {
		os.MkdirAll(scratch, 0o755)
	}
	SolveUnits(units, SolveOpts{TimeoutS: *timeout, Scratch: scratch, Workers: 16})
	bad := 0
	for _, u := range units {
		for _, o := range u.Obligs {
			if o.Status != "unsat" {
				bad++
				fmt.Printf("FAIL %-8s %s part=%d/%d (%s %.2fs) %s\n", o.Status, o.Name, o.FailPart, len(o.Parts), o.Solver, o.Seconds, o.Src)
				if *verbose {
					fmt.Println(o.Output)
				}
			} else if *verbose {
				fmt.Printf("ok   %s (%s %.2fs)\n", o.Name, o.Solver, o.Seconds)
			}
		}
		if u.Err != "" {
			bad++
		}
	}
	fmt.Printf("failed: %d\n", bad)
	if bad > 0 {
		return 1
	}
	return 0
}

func cmdSSA(args []string) int {
	w, err := LoadWorld("/repo", repoPatterns())
	if err != nil {
		fmt.Println(err)
		return 2
	}
	for fn := range ssautilAll(w) {
		for _, a := range args {
			if strings.Contains(fn.String(), a) {
				fn.WriteTo(os.Stdout)
			}
		}
	}
	return 0
}
