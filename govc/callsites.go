package govc

import (
	"sort"
	"strings"

	"golang.org/x/tools/go/ssa"
	"golang.org/x/tools/go/ssa/ssautil"
)

// Modular verification checks a call against the callee's precondition only where the caller is itself verified. A call site in a
// function that has no contract (and so is no unit of any check, nor — as far as the contracts say — executed inside one) leaves the
// callee's precondition unchecked there: an assumption. The assumed call sites of the unchanged tree are committed in
// /verif/assumed_callsites.json (per property: "caller -> callee"); a call site that is not listed is an undischarged precondition
// obligation and is reported (e.g. a new caller that bypasses the wrapper which establishes the precondition).

// assumedCallSites lists, for the given contracted functions with preconditions, the static call sites in repository code whose
// enclosing function (and every lexically enclosing function) has no contract.
func (w *World) assumedCallSites(callees map[*ssa.Function]bool) []string {
	seen := map[string]bool{}
	// closures started with `go` are not executed by the enclosing unit (sequential semantics: `go f()` starts nothing), so a contract
	// on the enclosing function does not cover the call sites inside them
	goTargets := map[*ssa.Function]bool{}
	for fn := range ssautil.AllFunctions(w.Prog) {
		for _, b := range fn.Blocks {
			for _, ins := range b.Instrs {
				if g, ok := ins.(*ssa.Go); ok {
					if mc, ok := g.Call.Value.(*ssa.MakeClosure); ok {
						if f, ok := mc.Fn.(*ssa.Function); ok {
							goTargets[f] = true
						}
					} else if f := g.Call.StaticCallee(); f != nil {
						goTargets[f] = true
					}
				}
			}
		}
	}
	for fn := range ssautil.AllFunctions(w.Prog) {
		if fn.Pkg == nil || !strings.HasPrefix(fn.Pkg.Pkg.Path(), RepoModule) || fn.Synthetic != "" || len(fn.Blocks) == 0 {
			continue
		}
		hasSpec := false
		for f := fn; f != nil; f = f.Parent() {
			if w.Specs.Funcs[funcKey(f)] != nil {
				hasSpec = true
			}
			if goTargets[f] {
				break // a goroutine body: only its own contract (or that of a closure nested in it) counts
			}
		}
		if hasSpec {
			continue
		}
		top := fn
		for top.Parent() != nil {
			top = top.Parent()
		}
		for _, b := range fn.Blocks {
			for _, ins := range b.Instrs {
				ci, ok := ins.(ssa.CallInstruction)
				if !ok {
					continue
				}
				if callee := ci.Common().StaticCallee(); callee != nil && callees[callee] {
					seen[unitShortName(funcKey(top))+" -> "+unitShortName(funcKey(callee))] = true
				}
			}
		}
	}
	var out []string
	for k := range seen {
		out = append(out, k)
	}
	sort.Strings(out)
	return out
}
