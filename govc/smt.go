package govc

// SMT term DAG with hash-consing, light simplification, and SMT-LIB 2 emission.
// All Go values are encoded over Int / Bool / Array sorts (DESIGN §3.3).

import (
	"fmt"
	"math/big"
	"sort"
	"strings"
)

type Sort string

const (
	SInt  Sort = "Int"
	SBool Sort = "Bool"
)

func ArrSort(idx, elem Sort) Sort { return Sort("(Array " + string(idx) + " " + string(elem) + ")") }

func (s Sort) IsArray() bool { return strings.HasPrefix(string(s), "(Array ") }

// ElemSort returns the element sort of an array sort.
func (s Sort) ElemSort() Sort {
	str := string(s)
	if !s.IsArray() {
		panic("ElemSort of non-array " + str)
	}
	// (Array IDX ELEM) ; IDX may itself be parenthesised
	body := str[len("(Array ") : len(str)-1]
	i := skipSExpr(body, 0)
	return Sort(strings.TrimSpace(body[i:]))
}

func (s Sort) IdxSort() Sort {
	str := string(s)
	body := str[len("(Array ") : len(str)-1]
	i := skipSExpr(body, 0)
	return Sort(strings.TrimSpace(body[:i]))
}

func skipSExpr(s string, i int) int {
	for i < len(s) && s[i] == ' ' {
		i++
	}
	if i < len(s) && s[i] == '(' {
		d := 0
		for ; i < len(s); i++ {
			if s[i] == '(' {
				d++
			} else if s[i] == ')' {
				d--
				if d == 0 {
					return i + 1
				}
			}
		}
		return i
	}
	for i < len(s) && s[i] != ' ' {
		i++
	}
	return i
}

type Term struct {
	id    int
	op    string // operator, or symbol / literal for leaves
	args  []*Term
	sort  Sort
	vars  []BoundVar // for quantifiers
	pats  [][]*Term  // quantifier patterns
	open  bool       // mentions a bound variable (cannot be hoisted)
	isVar bool       // bound variable leaf
	ival  *big.Int   // for integer literals
	h     uint64     // structural hash, stable across contexts (same construction => same hash)
}

type BoundVar struct {
	Name string
	Sort Sort
}

func (t *Term) Sort() Sort { return t.sort }
func (t *Term) String() string {
	return printTerm(t, nil)
}

type FunDecl struct {
	Name string
	Args []Sort
	Ret  Sort
}

// Ctx owns terms, declarations and global axioms for one verification unit.
type Ctx struct {
	tab     map[string]*Term
	nextID  int
	byHash  map[uint64]*Term
	decls   map[string]*FunDecl // declared consts (no args) and functions
	declOrd []string
	dtypes  []string // datatype declarations (raw SMT)
	fresh   map[string]int
	bvN     int
}

func NewCtx() *Ctx {
	return &Ctx{tab: map[string]*Term{}, decls: map[string]*FunDecl{}, fresh: map[string]int{}, byHash: map[uint64]*Term{}}
}

func (c *Ctx) key(op string, sort Sort, args []*Term, extra string) string {
	var sb strings.Builder
	sb.WriteString(op)
	sb.WriteByte('|')
	sb.WriteString(string(sort))
	for _, a := range args {
		fmt.Fprintf(&sb, "|%d", a.id)
	}
	sb.WriteString(extra)
	return sb.String()
}

func (c *Ctx) mk(op string, sort Sort, args ...*Term) *Term {
	k := c.key(op, sort, args, "")
	if t, ok := c.tab[k]; ok {
		return t
	}
	t := &Term{id: c.nextID, op: op, args: args, sort: sort}
	c.nextID++
	hh := fnv1a(op + "|" + string(sort))
	for _, a := range args {
		if a.open {
			t.open = true
		}
		hh = hh*1099511628211 ^ a.h
	}
	t.h = hh
	if !t.open {
		c.byHash[hh] = t
	}
	c.tab[k] = t
	return t
}

func fnv1a(s string) uint64 {
	h := uint64(14695981039346656037)
	for i := 0; i < len(s); i++ {
		h ^= uint64(s[i])
		h *= 1099511628211
	}
	return h
}

// ---- leaves ----

func (c *Ctx) Int(n int64) *Term { return c.BigInt(big.NewInt(n)) }

func (c *Ctx) BigInt(n *big.Int) *Term {
	var s string
	if n.Sign() < 0 {
		s = "(- " + new(big.Int).Neg(n).String() + ")"
	} else {
		s = n.String()
	}
	t := c.mk(s, SInt)
	if t.ival == nil {
		t.ival = new(big.Int).Set(n)
	}
	return t
}

func (c *Ctx) Pow2(k uint) *Term { return c.BigInt(new(big.Int).Lsh(big.NewInt(1), k)) }

func (c *Ctx) True() *Term  { return c.mk("true", SBool) }
func (c *Ctx) False() *Term { return c.mk("false", SBool) }
func (c *Ctx) Bool(b bool) *Term {
	if b {
		return c.True()
	}
	return c.False()
}

func isTrue(t *Term) bool  { return t.op == "true" && len(t.args) == 0 }
func isFalse(t *Term) bool { return t.op == "false" && len(t.args) == 0 }

func sanitize(name string) string {
	var sb strings.Builder
	for _, r := range name {
		switch {
		case r >= 'a' && r <= 'z', r >= 'A' && r <= 'Z', r >= '0' && r <= '9', r == '_', r == '.', r == '!', r == '$':
			sb.WriteRune(r)
		case r == '*':
			sb.WriteString("ptr.")
		case r == '[' || r == ']':
			sb.WriteString("$")
		case r == '/':
			sb.WriteString(".")
		default:
			sb.WriteString("_")
		}
	}
	return sb.String()
}

// Const declares (once) and returns a constant with exactly this name.
func (c *Ctx) Const(name string, sort Sort) *Term {
	name = sanitize(name)
	if d, ok := c.decls[name]; ok {
		if d.Ret != sort || len(d.Args) != 0 {
			panic(fmt.Sprintf("const %s redeclared with different sort %s vs %s", name, d.Ret, sort))
		}
	} else {
		c.decls[name] = &FunDecl{Name: name, Ret: sort}
		c.declOrd = append(c.declOrd, name)
	}
	return c.mk(name, sort)
}

// Fresh returns a new constant with a unique name derived from base.
func (c *Ctx) Fresh(base string, sort Sort) *Term {
	base = sanitize(base)
	for {
		n := c.fresh[base]
		c.fresh[base] = n + 1
		name := fmt.Sprintf("%s!%d", base, n)
		if _, ok := c.decls[name]; !ok {
			return c.Const(name, sort)
		}
	}
}

// Fun declares an uninterpreted function.
func (c *Ctx) Fun(name string, args []Sort, ret Sort) *FunDecl {
	name = sanitize(name)
	if d, ok := c.decls[name]; ok {
		return d
	}
	d := &FunDecl{Name: name, Args: args, Ret: ret}
	c.decls[name] = d
	c.declOrd = append(c.declOrd, name)
	return d
}

func (c *Ctx) FreshFun(base string, args []Sort, ret Sort) *FunDecl {
	base = sanitize(base)
	for {
		n := c.fresh[base]
		c.fresh[base] = n + 1
		name := fmt.Sprintf("%s!%d", base, n)
		if _, ok := c.decls[name]; !ok {
			return c.Fun(name, args, ret)
		}
	}
}

func (c *Ctx) Apply(f *FunDecl, args ...*Term) *Term {
	if len(args) != len(f.Args) {
		panic("arity mismatch applying " + f.Name)
	}
	if len(args) == 0 {
		return c.mk(f.Name, f.Ret)
	}
	return c.mk(f.Name, f.Ret, args...)
}

// BoundVar creates a fresh bound variable.
func (c *Ctx) NewBound(base string, sort Sort) *Term {
	c.bvN++
	name := fmt.Sprintf("%s?%d", sanitize(base), c.bvN)
	t := c.mk(name, sort)
	t.open = true
	t.isVar = true
	return t
}

// ---- boolean ----

func (c *Ctx) Not(a *Term) *Term {
	if isTrue(a) {
		return c.False()
	}
	if isFalse(a) {
		return c.True()
	}
	if a.op == "not" {
		return a.args[0]
	}
	return c.mk("not", SBool, a)
}

func (c *Ctx) And(as ...*Term) *Term {
	var out []*Term
	seen := map[int]bool{}
	for _, a := range as {
		if isFalse(a) {
			return c.False()
		}
		if isTrue(a) || seen[a.id] {
			continue
		}
		if a.op == "and" {
			for _, b := range a.args {
				if !seen[b.id] {
					seen[b.id] = true
					out = append(out, b)
				}
			}
			continue
		}
		seen[a.id] = true
		out = append(out, a)
	}
	for _, a := range out {
		if a.op == "not" && seen[a.args[0].id] {
			return c.False()
		}
	}
	switch len(out) {
	case 0:
		return c.True()
	case 1:
		return out[0]
	}
	return c.mk("and", SBool, out...)
}

func (c *Ctx) Or(as ...*Term) *Term {
	var out []*Term
	seen := map[int]bool{}
	for _, a := range as {
		if isTrue(a) {
			return c.True()
		}
		if isFalse(a) || seen[a.id] {
			continue
		}
		if a.op == "or" {
			for _, b := range a.args {
				if !seen[b.id] {
					seen[b.id] = true
					out = append(out, b)
				}
			}
			continue
		}
		seen[a.id] = true
		out = append(out, a)
	}
	for _, a := range out {
		if a.op == "not" && seen[a.args[0].id] {
			return c.True()
		}
	}
	switch len(out) {
	case 0:
		return c.False()
	case 1:
		return out[0]
	}
	return c.mk("or", SBool, out...)
}

func (c *Ctx) Implies(a, b *Term) *Term {
	if isTrue(a) {
		return b
	}
	if isFalse(a) || isTrue(b) {
		return c.True()
	}
	if isFalse(b) {
		return c.Not(a)
	}
	if a == b {
		return c.True()
	}
	return c.mk("=>", SBool, a, b)
}

func (c *Ctx) Iff(a, b *Term) *Term { return c.Eq(a, b) }

func (c *Ctx) Ite(cond, a, b *Term) *Term {
	if isTrue(cond) {
		return a
	}
	if isFalse(cond) {
		return b
	}
	if a == b {
		return a
	}
	if a.sort != b.sort {
		panic(fmt.Sprintf("ite sort mismatch %s vs %s", a.sort, b.sort))
	}
	if a.sort == SBool {
		if isTrue(a) && isFalse(b) {
			return cond
		}
		if isFalse(a) && isTrue(b) {
			return c.Not(cond)
		}
		if isTrue(a) {
			return c.Or(cond, b)
		}
		if isFalse(a) {
			return c.And(c.Not(cond), b)
		}
		if isTrue(b) {
			return c.Or(c.Not(cond), a)
		}
		if isFalse(b) {
			return c.And(cond, a)
		}
	}
	return c.mk("ite", a.sort, cond, a, b)
}

func (c *Ctx) Eq(a, b *Term) *Term {
	if a == b {
		return c.True()
	}
	if a.sort != b.sort {
		panic(fmt.Sprintf("eq sort mismatch %s vs %s (%s, %s)", a.sort, b.sort, a, b))
	}
	if a.ival != nil && b.ival != nil {
		return c.Bool(a.ival.Cmp(b.ival) == 0)
	}
	// (ite c k1 k2) == k  with literal leaves: distribute (prunes dispatch arms)
	if a.ival != nil && b.op == "ite" {
		a, b = b, a
	}
	if b.ival != nil && a.op == "ite" && iteLiteralLeaves(a, 6) {
		return c.Ite(a.args[0], c.Eq(a.args[1], b), c.Eq(a.args[2], b))
	}
	if a.sort == SBool {
		if isTrue(a) {
			return b
		}
		if isTrue(b) {
			return a
		}
		if isFalse(a) {
			return c.Not(b)
		}
		if isFalse(b) {
			return c.Not(a)
		}
	}
	if a.id > b.id {
		a, b = b, a
	}
	return c.mk("=", SBool, a, b)
}

func iteLiteralLeaves(t *Term, depth int) bool {
	if t.ival != nil {
		return true
	}
	if t.op == "ite" && depth > 0 {
		return iteLiteralLeaves(t.args[1], depth-1) && iteLiteralLeaves(t.args[2], depth-1)
	}
	return false
}

func (c *Ctx) Ne(a, b *Term) *Term { return c.Not(c.Eq(a, b)) }

// ---- arithmetic ----

func (c *Ctx) Add(a, b *Term) *Term {
	if a.ival != nil && b.ival != nil {
		return c.BigInt(new(big.Int).Add(a.ival, b.ival))
	}
	if a.ival != nil && a.ival.Sign() == 0 {
		return b
	}
	if b.ival != nil && b.ival.Sign() == 0 {
		return a
	}
	// (x + c1) + c2
	if b.ival != nil && a.op == "+" && len(a.args) == 2 && a.args[1].ival != nil {
		return c.Add(a.args[0], c.BigInt(new(big.Int).Add(a.args[1].ival, b.ival)))
	}
	if a.ival != nil {
		return c.Add(b, a)
	}
	return c.mk("+", SInt, a, b)
}

func (c *Ctx) Sub(a, b *Term) *Term {
	if a.ival != nil && b.ival != nil {
		return c.BigInt(new(big.Int).Sub(a.ival, b.ival))
	}
	if b.ival != nil {
		return c.Add(a, c.BigInt(new(big.Int).Neg(b.ival)))
	}
	if a == b {
		return c.Int(0)
	}
	return c.mk("-", SInt, a, b)
}

func (c *Ctx) Neg(a *Term) *Term { return c.Sub(c.Int(0), a) }

func (c *Ctx) Mul(a, b *Term) *Term {
	if a.ival != nil && b.ival != nil {
		return c.BigInt(new(big.Int).Mul(a.ival, b.ival))
	}
	if a.ival != nil {
		a, b = b, a
	}
	if b.ival != nil {
		if b.ival.Sign() == 0 {
			return c.Int(0)
		}
		if b.ival.Cmp(big.NewInt(1)) == 0 {
			return a
		}
	}
	return c.mk("*", SInt, a, b)
}

// Div / Mod are SMT-LIB integer div/mod (Euclidean). Callers handle Go's truncation.
func (c *Ctx) Div(a, b *Term) *Term {
	if a.ival != nil && b.ival != nil && b.ival.Sign() > 0 && a.ival.Sign() >= 0 {
		return c.BigInt(new(big.Int).Div(a.ival, b.ival))
	}
	if b.ival != nil && b.ival.Cmp(big.NewInt(1)) == 0 {
		return a
	}
	if b.ival == nil {
		// a divisor that is not a numeral makes the query nonlinear (the solvers switch to their nonlinear engines for
		// the whole query and time out): such quotients are uninterpreted. Code and specification use the same symbol,
		// so "the stored value is this quotient" is still decided (by congruence); facts that need the arithmetic
		// meaning of a variable-divisor quotient are not derivable (sound: fewer facts, never more).
		return c.Apply(c.Fun("vdiv", []Sort{SInt, SInt}, SInt), a, b)
	}
	return c.mk("div", SInt, a, b)
}

func (c *Ctx) Mod(a, b *Term) *Term {
	if a.ival != nil && b.ival != nil && b.ival.Sign() > 0 {
		return c.BigInt(new(big.Int).Mod(a.ival, b.ival))
	}
	if b.ival == nil {
		return c.Apply(c.Fun("vmod", []Sort{SInt, SInt}, SInt), a, b)
	}
	return c.mk("mod", SInt, a, b)
}

func (c *Ctx) cmp(op string, a, b *Term) *Term {
	if a.ival != nil && b.ival != nil {
		r := a.ival.Cmp(b.ival)
		switch op {
		case "<":
			return c.Bool(r < 0)
		case "<=":
			return c.Bool(r <= 0)
		case ">":
			return c.Bool(r > 0)
		case ">=":
			return c.Bool(r >= 0)
		}
	}
	if a == b {
		return c.Bool(op == "<=" || op == ">=")
	}
	return c.mk(op, SBool, a, b)
}

func (c *Ctx) Lt(a, b *Term) *Term { return c.cmp("<", a, b) }
func (c *Ctx) Le(a, b *Term) *Term { return c.cmp("<=", a, b) }
func (c *Ctx) Gt(a, b *Term) *Term { return c.cmp("<", b, a) }
func (c *Ctx) Ge(a, b *Term) *Term { return c.cmp("<=", b, a) }

// InRange: lo <= x < hi
func (c *Ctx) InRange(x, lo, hi *Term) *Term { return c.And(c.Le(lo, x), c.Lt(x, hi)) }

func (c *Ctx) Min(a, b *Term) *Term { return c.Ite(c.Le(a, b), a, b) }
func (c *Ctx) Max(a, b *Term) *Term { return c.Ite(c.Le(a, b), b, a) }

// ---- arrays ----

func (c *Ctx) Select(arr, idx *Term) *Term {
	if !arr.sort.IsArray() {
		panic("select on non-array " + arr.String())
	}
	// read-over-write simplification
	for a := arr; a.op == "store"; a = a.args[0] {
		if a.args[1] == idx {
			return a.args[2]
		}
		if a.args[1].ival != nil && idx.ival != nil {
			continue // distinct literals: look further
		}
		break
	}
	return c.mk("select", arr.sort.ElemSort(), arr, idx)
}

func (c *Ctx) Store(arr, idx, val *Term) *Term {
	if val.sort != arr.sort.ElemSort() {
		panic(fmt.Sprintf("store sort mismatch: array %s value %s", arr.sort, val.sort))
	}
	if arr.op == "store" && arr.args[1] == idx {
		arr = arr.args[0]
	}
	return c.mk("store", arr.sort, arr, idx, val)
}

// ---- quantifiers ----

func (c *Ctx) Forall(vars []*Term, body *Term, pats ...[]*Term) *Term {
	return c.quant("forall", vars, body, pats)
}
func (c *Ctx) Exists(vars []*Term, body *Term) *Term { return c.quant("exists", vars, body, nil) }

// patternOK: E-matching patterns may not contain interpreted boolean structure or ite.
func patternOK(t *Term) bool {
	switch t.op {
	case "ite", "and", "or", "not", "=>", "=", "<", "<=", "forall", "exists", "true", "false":
		return false
	}
	for _, a := range t.args {
		if !patternOK(a) {
			return false
		}
	}
	return true
}

func (c *Ctx) quant(q string, vars []*Term, body *Term, pats [][]*Term) *Term {
	if !body.open {
		return body
	}
	if len(pats) > 0 {
		var good [][]*Term
		for _, p := range pats {
			ok := true
			for _, x := range p {
				if !patternOK(x) {
					ok = false
				}
			}
			if ok {
				good = append(good, p)
			}
		}
		pats = good
	}
	if isTrue(body) || isFalse(body) {
		return body
	}
	var sb strings.Builder
	for _, v := range vars {
		fmt.Fprintf(&sb, "#%d", v.id)
	}
	for _, p := range pats {
		sb.WriteString("#p")
		for _, x := range p {
			fmt.Fprintf(&sb, ".%d", x.id)
		}
	}
	k := c.key(q, SBool, []*Term{body}, sb.String())
	if t, ok := c.tab[k]; ok {
		return t
	}
	t := &Term{id: c.nextID, op: q, args: []*Term{body}, sort: SBool, pats: pats}
	c.nextID++
	for _, v := range vars {
		t.vars = append(t.vars, BoundVar{v.op, v.sort})
	}
	// open iff body mentions bound vars other than ours
	t.open = mentionsOtherBound(body, vars)
	c.tab[k] = t
	return t
}

func mentionsOtherBound(t *Term, mine []*Term) bool {
	seen := map[int]bool{}
	var rec func(t *Term, bound map[string]bool) bool
	rec = func(t *Term, bound map[string]bool) bool {
		if !t.open {
			return false
		}
		if t.isVar {
			return !bound[t.op]
		}
		if len(t.vars) > 0 {
			nb := map[string]bool{}
			for k := range bound {
				nb[k] = true
			}
			for _, v := range t.vars {
				nb[v.Name] = true
			}
			return rec(t.args[0], nb)
		}
		if seen[t.id] {
			return false
		}
		for _, a := range t.args {
			if rec(a, bound) {
				return true
			}
		}
		seen[t.id] = true
		return false
	}
	b := map[string]bool{}
	for _, v := range mine {
		b[v.op] = true
	}
	return rec(t, b)
}

// Subst replaces bound-variable (or any) leaves by terms. Used to instantiate
// spec-level lambdas; rebuilds through the simplifying constructors.
func (c *Ctx) Subst(t *Term, m map[*Term]*Term) *Term {
	memo := map[int]*Term{}
	var rec func(t *Term) *Term
	rec = func(t *Term) *Term {
		if r, ok := m[t]; ok {
			return r
		}
		if len(t.args) == 0 {
			return t
		}
		if r, ok := memo[t.id]; ok {
			return r
		}
		args := make([]*Term, len(t.args))
		changed := false
		for i, a := range t.args {
			args[i] = rec(a)
			if args[i] != a {
				changed = true
			}
		}
		var r *Term
		if !changed {
			r = t
		} else {
			r = c.rebuild(t, args)
		}
		memo[t.id] = r
		return r
	}
	return rec(t)
}

func (c *Ctx) rebuild(t *Term, args []*Term) *Term {
	switch t.op {
	case "not":
		return c.Not(args[0])
	case "and":
		return c.And(args...)
	case "or":
		return c.Or(args...)
	case "=>":
		return c.Implies(args[0], args[1])
	case "ite":
		return c.Ite(args[0], args[1], args[2])
	case "=":
		return c.Eq(args[0], args[1])
	case "+":
		return c.Add(args[0], args[1])
	case "-":
		return c.Sub(args[0], args[1])
	case "*":
		return c.Mul(args[0], args[1])
	case "div":
		return c.Div(args[0], args[1])
	case "mod":
		return c.Mod(args[0], args[1])
	case "<":
		return c.Lt(args[0], args[1])
	case "<=":
		return c.Le(args[0], args[1])
	case "select":
		return c.Select(args[0], args[1])
	case "store":
		return c.Store(args[0], args[1], args[2])
	case "forall", "exists":
		var vars []*Term
		for _, v := range t.vars {
			bv := c.mk(v.Name, v.Sort)
			bv.open, bv.isVar = true, true
			vars = append(vars, bv)
		}
		return c.quant(t.op, vars, args[0], t.pats)
	}
	return c.mk(t.op, t.sort, args...)
}

// ---- printing ----

var qidOn = false // name quantifiers (:qid) for instantiation profiling

func printTerm(t *Term, names map[int]string) string {
	var sb strings.Builder
	writeTerm(&sb, t, names, true)
	return sb.String()
}

func writeTerm(sb *strings.Builder, t *Term, names map[int]string, top bool) {
	if !top && names != nil {
		if n, ok := names[t.id]; ok {
			sb.WriteString(n)
			return
		}
	}
	if len(t.vars) > 0 {
		sb.WriteString("(")
		sb.WriteString(t.op)
		sb.WriteString(" (")
		for i, v := range t.vars {
			if i > 0 {
				sb.WriteString(" ")
			}
			fmt.Fprintf(sb, "(%s %s)", v.Name, v.Sort)
		}
		sb.WriteString(") ")
		if len(t.pats) > 0 || qidOn {
			sb.WriteString("(! ")
			writeTerm(sb, t.args[0], names, false)
			if qidOn {
				fmt.Fprintf(sb, " :qid q%d", t.id)
			}
			for _, p := range t.pats {
				sb.WriteString(" :pattern (")
				for i, x := range p {
					if i > 0 {
						sb.WriteString(" ")
					}
					writeTerm(sb, x, names, false)
				}
				sb.WriteString(")")
			}
			sb.WriteString(")")
		} else {
			writeTerm(sb, t.args[0], names, false)
		}
		sb.WriteString(")")
		return
	}
	if len(t.args) == 0 {
		sb.WriteString(t.op)
		return
	}
	sb.WriteString("(")
	sb.WriteString(t.op)
	for _, a := range t.args {
		sb.WriteString(" ")
		writeTerm(sb, a, names, false)
	}
	sb.WriteString(")")
}

// Script builds an SMT-LIB script asserting all `asserts`; closed compound
// sub-terms used more than once are hoisted into define-funs (cone of influence
// only). getValues are closed terms whose model values are requested.
func (c *Ctx) Script(asserts []*Term, getValues []*Term, forCVC5 bool) string {
	// reference counts over the cone
	refs := map[int]int{}
	var order []*Term
	visited := map[int]bool{}
	var visit func(t *Term)
	visit = func(t *Term) {
		refs[t.id]++
		if visited[t.id] {
			return
		}
		visited[t.id] = true
		for _, a := range t.args {
			visit(a)
		}
		for _, p := range t.pats {
			for _, x := range p {
				visit(x)
			}
		}
		order = append(order, t) // post-order: children first
	}
	for _, a := range asserts {
		visit(a)
	}
	for _, g := range getValues {
		visit(g)
	}
	var sb strings.Builder
	if forCVC5 {
		sb.WriteString("(set-option :produce-models true)\n")
	}
	sb.WriteString("(set-logic ALL)\n")
	for _, d := range c.dtypes {
		sb.WriteString(d)
		sb.WriteString("\n")
	}
	// declarations actually used
	used := map[string]bool{}
	for _, t := range order {
		if _, ok := c.decls[t.op]; ok && !t.isVar {
			used[t.op] = true
		}
	}
	for _, name := range c.declOrd {
		if !used[name] {
			continue
		}
		d := c.decls[name]
		if len(d.Args) == 0 {
			fmt.Fprintf(&sb, "(declare-const %s %s)\n", d.Name, d.Ret)
		} else {
			as := make([]string, len(d.Args))
			for i, a := range d.Args {
				as[i] = string(a)
			}
			fmt.Fprintf(&sb, "(declare-fun %s (%s) %s)\n", d.Name, strings.Join(as, " "), d.Ret)
		}
	}
	names := map[int]string{}
	for _, t := range order {
		if t.open || len(t.args) == 0 {
			continue
		}
		if refs[t.id] > 1 {
			n := fmt.Sprintf("n%d", t.id)
			fmt.Fprintf(&sb, "(define-fun %s () %s %s)\n", n, t.sort, printTerm(t, names))
			names[t.id] = n
		}
	}
	for _, a := range asserts {
		if n, ok := names[a.id]; ok {
			fmt.Fprintf(&sb, "(assert %s)\n", n)
		} else {
			fmt.Fprintf(&sb, "(assert %s)\n", printTerm(a, names))
		}
	}
	for i, g := range getValues {
		var body string
		if n, ok := names[g.id]; ok {
			body = n
		} else {
			body = printTerm(g, names)
		}
		fmt.Fprintf(&sb, "(define-fun rv!%d () %s %s)\n", i, g.sort, body)
	}
	sb.WriteString("(check-sat)\n")
	if len(getValues) > 0 {
		sb.WriteString("(get-value (")
		for i := range getValues {
			if i > 0 {
				sb.WriteString(" ")
			}
			fmt.Fprintf(&sb, "rv!%d", i)
		}
		sb.WriteString("))\n")
	}
	return sb.String()
}

// symbolsOf returns the set of declared symbols (consts and funs) in t's cone.
func (c *Ctx) symbolsOf(t *Term, memo map[int]map[string]bool) map[string]bool {
	out := map[string]bool{}
	seen := map[int]bool{}
	var rec func(t *Term)
	rec = func(t *Term) {
		if seen[t.id] {
			return
		}
		seen[t.id] = true
		if _, ok := c.decls[t.op]; ok && !t.isVar {
			out[t.op] = true
		}
		for _, a := range t.args {
			rec(a)
		}
	}
	rec(t)
	return out
}

func sortedKeys(m map[string]bool) []string {
	var ks []string
	for k := range m {
		ks = append(ks, k)
	}
	sort.Strings(ks)
	return ks
}
