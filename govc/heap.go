package govc

// Heap access: component arrays, array contents, maps, strings, allocation,
// type invariants of symbolic values.

import (
	"fmt"
	"go/types"
	"math/big"
	"os"
	"strings"
)

// compKeyField: heap component of a struct field leaf.
func compKeyField(owner string, field string, suffix string) string {
	return "H!" + owner + "." + field + suffix
}

func compKeyElems(elem types.Type, suffix string) string {
	return "A!" + typeName(elem) + suffix
}

func compKeyMap(m *types.Map, what string) string {
	return "M!" + typeName(m) + what
}

func compKeyGlobal(name string, suffix string) string { return "G!" + name + suffix }

func compSort(key string, leaf Sort) Sort {
	switch {
	case strings.HasPrefix(key, "A!"):
		return ArrSort(SInt, ArrSort(SInt, leaf))
	default:
		return ArrSort(SInt, leaf)
	}
}

// heapGet returns the current term of component key (lazily the entry-state constant).
func (x *Exec) heapGet(st *State, key string, sort Sort) *Term {
	if t, ok := st.Heap[key]; ok {
		return t
	}
	var t *Term
	if x.epoch == 0 {
		t = x.C.Const("H0!"+key, sort)
		x.entryHeap[key] = t
	} else {
		// a component first touched after a havoc-everything point (dry mode)
		t = x.C.Const(fmt.Sprintf("He%d!%s", x.epoch, key), sort)
	}
	st.Heap[key] = t
	x.compSorts[key] = sort
	if x.epoch == 0 {
		x.curAlloc = x.C.Const("alloc0", SInt)
	} else {
		x.curAlloc = st.Alloc
	}
	x.rangeAxiom(key, t)
	if st.Alloc != nil && st.Alloc != x.curAlloc && !x.dry {
		// first touched in a later state: the component is unchanged since entry, and the
		// allocation invariant holds in this state too (objects allocated by callees meanwhile)
		x.curAlloc = st.Alloc
		x.rangeAxiom(key, t)
	}
	return t
}

// noteLeaf records the Go-level leaf a component holds (for range axioms).
func (x *Exec) noteLeaf(key string, l Leaf) {
	if _, ok := x.compLeaf[key]; !ok {
		x.compLeaf[key] = l
	}
}

// rangeAxiom: background heap invariant for a freshly introduced version of a
// component: every cell holds a value of its Go type (integer ranges; slice
// header sanity). Sound because every store writes a typed value.
func (x *Exec) rangeAxiom(key string, t *Term) {
	l, ok := x.compLeaf[key]
	if !ok || l.Type == nil {
		return
	}
	rk := t.id
	if x.curAlloc != nil {
		rk = t.id*1000003 + x.curAlloc.id
	}
	if x.ranged[rk] {
		return
	}
	x.ranged[rk] = true
	c := x.C
	var lo, hi *Term
	allocBound := false
	switch l.Role {
	case "len", "cap", "off":
		lo, hi = c.Int(0), c.Add(c.Pow2(47), c.Int(1))
	case "arr":
		lo, hi = c.Int(0), c.Add(x.curAlloc, c.Int(1))
		allocBound = true
	case "val":
		// interface payloads are allocated pointers when every implementation is a pointer type
		it, ok := types.Unalias(l.Type).Underlying().(*types.Interface)
		if !ok || it.NumMethods() == 0 || isErrorType(l.Type) {
			return
		}
		impls := x.W.Implementers(it)
		if len(impls) == 0 {
			return
		}
		for _, im := range impls {
			if _, isPtr := im.Underlying().(*types.Pointer); !isPtr {
				return
			}
		}
		lo, hi = c.Int(0), c.Add(x.curAlloc, c.Int(1))
		allocBound = true
		// the payload's dynamic type is the interface's tag (paired component: .tag)
		allDyn := true
		for _, im := range impls {
			if _, ok := x.dynTag(im); !ok {
				allDyn = false
			}
		}
		if allDyn && strings.HasSuffix(key, ".val") {
			pre := strings.TrimSuffix(key, ".val")
			x.pendingDyn[pre+"#val"] = t
			if tg, ok := x.pendingDyn[pre+"#tag"]; ok {
				x.dynIfaceAxiom(pre, tg, t)
			}
		}
	case "tag":
		if strings.HasSuffix(key, ".tag") {
			pre := strings.TrimSuffix(key, ".tag")
			x.pendingDyn[pre+"#tag"] = t
			if vl, ok := x.pendingDyn[pre+"#val"]; ok {
				x.dynIfaceAxiom(pre, t, vl)
			}
		}
		return
	default:
		switch types.Unalias(l.Type).Underlying().(type) {
		case *types.Pointer, *types.Map, *types.Chan:
			lo, hi = c.Int(0), c.Add(x.curAlloc, c.Int(1))
			allocBound = true
			if k, ok := x.dynTag(l.Type); ok {
				x.dynAxiom(key, t, k, nil)
			}
		}
		if lo == nil {
			b, isB := types.Unalias(l.Type).Underlying().(*types.Basic)
			if !isB || b.Info()&types.IsInteger == 0 && b.Info()&types.IsFloat == 0 {
				return
			}
			l0, h0, ok := intRange(b)
			if !ok {
				return
			}
			lo, hi = c.BigInt(l0), c.BigInt(h0)
		}
	}
	p := c.NewBound("p", SInt)
	// bounds that refer to the allocation counter only hold for allocated objects:
	// the cells of objects allocated later are unconstrained in this version
	guard := c.True()
	if allocBound {
		guard = c.Le(p, x.curAlloc)
	}
	if strings.HasPrefix(key, "A!") || strings.HasPrefix(key, "M!") && !x.mapLenKeys[key] {
		i := c.NewBound("i", SInt)
		sel := c.Select(c.Select(t, p), i)
		x.assumeGlobal(c.Forall([]*Term{p, i}, c.Implies(guard, c.InRange(sel, lo, hi)), []*Term{sel}))
		return
	}
	sel := c.Select(t, p)
	x.assumeGlobal(c.Forall([]*Term{p}, c.Implies(guard, c.InRange(sel, lo, hi)), []*Term{sel}))
}

func (x *Exec) heapSet(st *State, key string, t *Term) {
	st.Heap[key] = t
	// the address is recovered from the outermost store
	var addr *Term
	if t.op == "store" && len(t.args) == 3 {
		addr = t.args[1]
	}
	x.noteWriteAt(key, addr)
}

// ---- struct fields ----

func ownerName(t types.Type) string {
	t = types.Unalias(t)
	if n, ok := t.(*types.Named); ok {
		return qualName(n)
	}
	return "anon:" + t.String()
}

// loadField reads field fi of the struct of type T at address p.
func (x *Exec) loadField(st *State, T types.Type, fi FieldInfo, p *Term) Val {
	if s := structOf(fi.Type); s != nil && !isOpaqueInt(fi.Type) {
		// by-value nested struct: shares the address
		return x.loadStruct(st, fi.Type, p)
	}
	ls := x.Sh.Leaves(fi.Type)
	ts := make([]*Term, len(ls))
	for i, l := range ls {
		x.noteLeaf(compKeyField(ownerName(T), fi.Name, l.Suffix), l)
		arr := x.heapGet(st, compKeyField(ownerName(T), fi.Name, l.Suffix), ArrSort(SInt, l.Sort))
		ts[i] = x.C.Select(arr, p)
	}
	v := x.Sh.Unflatten(fi.Type, ts)
	x.assumeLoaded(st, v, fi.Type)
	return v
}

func (x *Exec) storeField(st *State, T types.Type, fi FieldInfo, p *Term, v Val) {
	if s := structOf(fi.Type); s != nil && !isOpaqueInt(fi.Type) {
		x.storeStruct(st, fi.Type, p, v)
		return
	}
	ls := x.Sh.Leaves(fi.Type)
	ts := x.Sh.Flatten(v)
	if len(ts) != len(ls) {
		panic(fmt.Sprintf("storeField %s.%s: %d leaves, %d terms", ownerName(T), fi.Name, len(ls), len(ts)))
	}
	for i, l := range ls {
		key := compKeyField(ownerName(T), fi.Name, l.Suffix)
		x.noteLeaf(key, l)
		arr := x.heapGet(st, key, ArrSort(SInt, l.Sort))
		x.frameCheckObj(st, key, p)
		x.heapSet(st, key, x.C.Store(arr, p, ts[i]))
	}
}

func (x *Exec) loadStruct(st *State, T types.Type, p *Term) Val {
	var fs []Val
	for _, fi := range x.Sh.Fields(T) {
		fs = append(fs, x.loadField(st, T, fi, p))
	}
	return VStruct{fs}
}

func (x *Exec) storeStruct(st *State, T types.Type, p *Term, v Val) {
	sv, ok := v.(VStruct)
	fields := x.Sh.Fields(T)
	if !ok || len(sv.F) != len(fields) {
		panic(unsupported(fmt.Sprintf("storeStruct %s with %T", T, v)))
	}
	for i, fi := range fields {
		x.storeField(st, T, fi, p, sv.F[i])
	}
}

func (x *Exec) fieldByIndex(T types.Type, idx int) FieldInfo {
	for _, fi := range x.Sh.Fields(T) {
		if fi.Index == idx {
			return fi
		}
	}
	panic(unsupported(fmt.Sprintf("field %d of %s not modelled", idx, T)))
}

func (x *Exec) fieldByName(T types.Type, name string) (FieldInfo, bool) {
	for _, fi := range x.Sh.Fields(T) {
		if fi.Name == name {
			return fi, true
		}
	}
	return FieldInfo{}, false
}

// ---- zero values ----

func (x *Exec) zero(t types.Type) Val {
	ls := x.Sh.Leaves(t)
	ts := make([]*Term, len(ls))
	for i, l := range ls {
		if l.Sort == SBool {
			ts[i] = x.C.False()
		} else {
			ts[i] = x.C.Int(0)
		}
	}
	return x.Sh.Unflatten(t, ts)
}

// ---- allocation ----

func (x *Exec) allocAddr(st *State) *Term {
	a := x.C.Add(st.Alloc, x.C.Int(1))
	st.Alloc = a
	if x.freshAddrs != nil {
		x.freshAddrs[a.id] = true
	}
	return a
}

// newStruct allocates a zeroed struct of type T.
func (x *Exec) newStruct(st *State, T types.Type) *Term {
	p := x.allocAddr(st)
	x.zeroStructAt(st, T, p)
	if k, ok := x.dynTag(types.NewPointer(T)); ok {
		x.assume(st, x.C.Eq(x.dyntype(p), k))
	}
	return p
}

// dyntype(p): the struct type allocated at address p. Objects of different
// types never share an address; structs used by value inside other structs
// share their parent's address and are therefore exempt.
func (x *Exec) dyntype(p *Term) *Term {
	return x.C.Apply(x.C.Fun("dyntype", []Sort{SInt}, SInt), p)
}

// dynTag: the tag constant for pointer type pt, if objects of its element type are only ever allocated stand-alone.
func (x *Exec) dynTag(pt types.Type) (*Term, bool) {
	p, ok := types.Unalias(pt).Underlying().(*types.Pointer)
	if !ok || os.Getenv("GOVC_NODYN") != "" {
		return nil, false
	}
	el := p.Elem()
	if structOf(el) == nil || isOpaqueInt(el) {
		return nil, false
	}
	n, ok := types.Unalias(el).(*types.Named)
	if !ok || x.W.usedByValue(n) {
		return nil, false
	}
	if n.Obj().Pkg() == nil || !x.W.IsRepoPkg(n.Obj().Pkg()) {
		return nil, false
	}
	return x.C.Int(int64(x.W.TypeTag(types.NewPointer(el)))), true
}

func (x *Exec) zeroStructAt(st *State, T types.Type, p *Term) {
	for _, fi := range x.Sh.Fields(T) {
		if s := structOf(fi.Type); s != nil && !isOpaqueInt(fi.Type) {
			x.zeroStructAt(st, fi.Type, p)
			continue
		}
		for _, l := range x.Sh.Leaves(fi.Type) {
			key := compKeyField(ownerName(T), fi.Name, l.Suffix)
			x.noteLeaf(key, l)
			arr := x.heapGet(st, key, ArrSort(SInt, l.Sort))
			var z *Term
			if l.Sort == SBool {
				z = x.C.False()
			} else {
				z = x.C.Int(0)
			}
			x.heapSet(st, key, x.C.Store(arr, p, z))
		}
	}
}

// ---- array contents ----

func (x *Exec) elemsComp(st *State, elem types.Type, l Leaf) (string, *Term) {
	key := compKeyElems(elem, l.Suffix)
	x.noteLeaf(key, l)
	return key, x.heapGet(st, key, ArrSort(SInt, ArrSort(SInt, l.Sort)))
}

// loadElem reads element at absolute index idx of array arr.
func (x *Exec) loadElem(st *State, elem types.Type, arr, idx *Term) Val {
	ls := x.Sh.Leaves(elem)
	ts := make([]*Term, len(ls))
	for i, l := range ls {
		_, comp := x.elemsComp(st, elem, l)
		ts[i] = x.C.Select(x.C.Select(comp, arr), idx)
	}
	v := x.Sh.Unflatten(elem, ts)
	x.assumeLoaded(st, v, elem)
	return v
}

func (x *Exec) storeElem(st *State, elem types.Type, arr, idx *Term, v Val) {
	ls := x.Sh.Leaves(elem)
	ts := x.Sh.Flatten(v)
	for i, l := range ls {
		key, comp := x.elemsComp(st, elem, l)
		inner := x.C.Select(comp, arr)
		x.frameCheckElem(st, key, arr, idx)
		x.heapSet(st, key, x.C.Store(comp, arr, x.C.Store(inner, idx, ts[i])))
	}
}

// newArray allocates a fresh array id whose contents are zero (for the given elem type).
func (x *Exec) newArray(st *State, elem types.Type, zeroed bool) *Term {
	a := x.allocAddr(st)
	if zeroed {
		for _, l := range x.Sh.Leaves(elem) {
			key, comp := x.elemsComp(st, elem, l)
			var z *Term
			if l.Sort == SBool {
				z = x.C.False()
			} else {
				z = x.C.Int(0)
			}
			zarr := x.zeroArray(l.Sort, z)
			x.heapSet(st, key, x.C.Store(comp, a, zarr))
		}
	}
	return a
}

// zeroArray: the constant array of zeros ((as const ...) is accepted by z3 and cvc5).
func (x *Exec) zeroArray(leaf Sort, z *Term) *Term {
	return x.C.mk("((as const "+string(ArrSort(SInt, leaf))+") "+z.op+")", ArrSort(SInt, leaf))
}

// ---- strings ----

func (x *Exec) strLit(s string) *Term {
	if s == "" {
		return x.C.Int(0)
	}
	id, ok := x.strLits[s]
	if !ok {
		id = len(x.strLits) + 1
		x.strLits[s] = id
		x.strLitList = append(x.strLitList, s)
		t := x.C.Int(int64(id))
		x.assumeGlobal(x.C.Eq(x.slen(t), x.C.Int(int64(len(s)))))
	}
	return x.C.Int(int64(id))
}

func (x *Exec) slenFn() *FunDecl { return x.C.Fun("slen", []Sort{SInt}, SInt) }
func (x *Exec) satFn() *FunDecl  { return x.C.Fun("sat", []Sort{SInt, SInt}, SInt) }

func (x *Exec) slen(s *Term) *Term {
	if !x.slenAxiom {
		x.slenAxiom = true
		c := x.C
		v := c.NewBound("s", SInt)
		l := c.Apply(x.slenFn(), v)
		x.assumeGlobal(c.Forall([]*Term{v}, c.And(c.Le(c.Int(0), l), c.Le(l, c.Pow2(47)),
			c.Eq(c.Eq(l, c.Int(0)), c.Eq(v, c.Int(0)))), []*Term{l}))
	}
	return x.C.Apply(x.slenFn(), s)
}
func (x *Exec) sat(s, i *Term) *Term {
	if s.ival != nil && i.ival != nil && s.ival.IsInt64() && i.ival.IsInt64() {
		id := int(s.ival.Int64())
		if id >= 1 && id <= len(x.strLitList) {
			lit := x.strLitList[id-1]
			k := i.ival.Int64()
			if k >= 0 && k < int64(len(lit)) {
				return x.C.Int(int64(lit[k]))
			}
		}
	}
	return x.C.Apply(x.satFn(), s, i)
}

// strLenFacts: slen(s) >= 0 and (slen(s)==0 <=> s is the empty string)
func (x *Exec) strLenFacts(s *Term) *Term {
	l := x.slen(s)
	return x.C.And(x.C.Ge(l, x.C.Int(0)), x.C.Le(l, x.C.Pow2(47)), x.C.Eq(x.C.Eq(l, x.C.Int(0)), x.C.Eq(s, x.C.Int(0))))
}

// ---- type invariants ----

func intRange(b *types.Basic) (lo, hi *big.Int, ok bool) {
	bits := map[types.BasicKind]uint{
		types.Int8: 8, types.Int16: 16, types.Int32: 32, types.Int64: 64, types.Int: 64,
		types.Uint8: 8, types.Uint16: 16, types.Uint32: 32, types.Uint64: 64, types.Uint: 64, types.Uintptr: 64,
		types.Float32: 32, types.Float64: 64, // floats are bit patterns
	}
	n, has := bits[b.Kind()]
	if !has {
		return nil, nil, false
	}
	switch b.Kind() {
	case types.Int8, types.Int16, types.Int32, types.Int64, types.Int:
		hi = new(big.Int).Lsh(big.NewInt(1), n-1)
		lo = new(big.Int).Neg(hi)
		return lo, hi, true
	}
	return big.NewInt(0), new(big.Int).Lsh(big.NewInt(1), n), true
}

// typeInv returns the invariant that every value of Go type t satisfies in state st.
func (x *Exec) typeInv(st *State, v Val, t types.Type) *Term {
	c := x.C
	t = types.Unalias(t)
	if isOpaqueInt(t) {
		return c.True()
	}
	switch u := t.Underlying().(type) {
	case *types.Basic:
		vi, ok := v.(VInt)
		if !ok {
			return c.True()
		}
		if u.Info()&types.IsString != 0 {
			return x.strLenFacts(vi.T)
		}
		if lo, hi, ok := intRange(u); ok {
			return c.InRange(vi.T, c.BigInt(lo), c.BigInt(hi))
		}
	case *types.Pointer, *types.Map, *types.Chan:
		if vi, ok := v.(VInt); ok {
			r := c.And(c.Le(c.Int(0), vi.T), c.Le(vi.T, st.Alloc))
			if k, ok := x.dynTag(t); ok {
				r = c.And(r, c.Implies(c.Ne(vi.T, c.Int(0)), c.Eq(x.dyntype(vi.T), k)))
			}
			return r
		}
	case *types.Signature:
		if vi, ok := v.(VInt); ok {
			return c.Le(c.Int(0), vi.T)
		}
	case *types.Slice:
		s := v.(VSlice)
		return c.And(
			c.Le(c.Int(0), s.Arr), c.Le(s.Arr, st.Alloc),
			c.Le(c.Int(0), s.Off), c.Le(c.Int(0), s.Len), c.Le(s.Len, s.Cap),
			c.Le(c.Add(s.Off, s.Cap), c.Pow2(47)),
			c.Implies(c.Eq(s.Arr, c.Int(0)), c.And(c.Eq(s.Cap, c.Int(0)), c.Eq(s.Off, c.Int(0)))),
		)
	case *types.Interface:
		i := v.(VIface)
		conj := []*Term{c.Le(c.Int(0), i.Tag), c.Implies(c.Eq(i.Tag, c.Int(0)), c.Eq(i.Val, c.Int(0)))}
		if u.NumMethods() > 0 && !isErrorType(t) {
			impls := x.W.Implementers(u)
			if len(impls) > 0 && !x.hasExternIface(t) {
				var alts []*Term
				alts = append(alts, c.Eq(i.Tag, c.Int(0)))
				for _, im := range impls {
					alt := c.Eq(i.Tag, c.Int(int64(x.W.TypeTag(im))))
					if _, isPtr := im.Underlying().(*types.Pointer); isPtr {
						alt = c.And(alt, c.Lt(c.Int(0), i.Val), c.Le(i.Val, st.Alloc))
						if k, ok := x.dynTag(im); ok {
							alt = c.And(alt, c.Eq(x.dyntype(i.Val), k))
						}
					}
					alts = append(alts, alt)
				}
				conj = append(conj, c.Or(alts...))
			}
		}
		return c.And(conj...)
	case *types.Struct:
		sv, ok := v.(VStruct)
		if !ok {
			return c.True()
		}
		var conj []*Term
		for i, fi := range x.Sh.Fields(t) {
			conj = append(conj, x.typeInv(st, sv.F[i], fi.Type))
		}
		return c.And(conj...)
	}
	return c.True()
}

func isErrorType(t types.Type) bool {
	return types.Identical(t, types.Universe.Lookup("error").Type())
}

// assumeLoaded adds the type invariant for a value just read from the heap
// (instantiation of the background heap invariant at the use site).
func (x *Exec) assumeLoaded(st *State, v Val, t types.Type) {
	inv := x.typeInv(st, v, t)
	if !isTrue(inv) && !inv.open {
		x.assume(st, inv)
	}
}

// symbolic creates a fresh symbolic value of type t.
func (x *Exec) symbolic(base string, t types.Type) Val {
	ls := x.Sh.Leaves(t)
	ts := make([]*Term, len(ls))
	for i, l := range ls {
		ts[i] = x.C.Fresh(base+l.Suffix, l.Sort)
	}
	return x.Sh.Unflatten(t, ts)
}

// slot(off, j) = off + j, kept behind an uninterpreted function so that
// quantifier triggers of the form A[slot(off, j)] bind j to whole index terms
// (matching modulo arithmetic is not available in E-matching).
func (x *Exec) slot(off, idx *Term) *Term {
	c := x.C
	f := c.Fun("slot", []Sort{SInt, SInt}, SInt)
	if !x.slotAxiom {
		x.slotAxiom = true
		o := c.NewBound("o", SInt)
		j := c.NewBound("j", SInt)
		app := c.Apply(f, o, j)
		x.assumeGlobal(c.Forall([]*Term{o, j}, c.Eq(app, c.Add(o, j)), []*Term{app}))
	}
	return c.Apply(f, off, idx)
}

// dynAxiom: every non-nil pointer stored in component t points to an object of type tag k.
func (x *Exec) dynAxiom(key string, t *Term, k *Term, _ *Term) {
	c := x.C
	p := c.NewBound("p", SInt)
	if strings.HasPrefix(key, "A!") || strings.HasPrefix(key, "M!") && !x.mapLenKeys[key] {
		i := c.NewBound("i", SInt)
		sel := c.Select(c.Select(t, p), i)
		x.assumeGlobal(c.Forall([]*Term{p, i}, c.Implies(c.Ne(sel, c.Int(0)), c.Eq(x.dyntype(sel), k)), []*Term{sel}))
		return
	}
	sel := c.Select(t, p)
	x.assumeGlobal(c.Forall([]*Term{p}, c.Implies(c.Ne(sel, c.Int(0)), c.Eq(x.dyntype(sel), k)), []*Term{sel}))
}

// dynIfaceAxiom: for an interface-typed component pair (tag, val) whose
// implementations are all stand-alone pointer types: dyntype(val) == tag.
func (x *Exec) dynIfaceAxiom(prefix string, tagT, valT *Term) {
	c := x.C
	k := fmt.Sprintf("%d|%d", tagT.id, valT.id)
	if x.dynDone[k] {
		return
	}
	x.dynDone[k] = true
	p := c.NewBound("p", SInt)
	if strings.HasPrefix(prefix, "A!") || strings.HasPrefix(prefix, "M!") {
		i := c.NewBound("i", SInt)
		sv := c.Select(c.Select(valT, p), i)
		stg := c.Select(c.Select(tagT, p), i)
		x.assumeGlobal(c.Forall([]*Term{p, i}, c.Implies(c.Ne(stg, c.Int(0)), c.Eq(x.dyntype(sv), stg)), []*Term{sv}, []*Term{stg}))
		return
	}
	sv := c.Select(valT, p)
	stg := c.Select(tagT, p)
	x.assumeGlobal(c.Forall([]*Term{p}, c.Implies(c.Ne(stg, c.Int(0)), c.Eq(x.dyntype(sv), stg)), []*Term{sv}, []*Term{stg}))
}
