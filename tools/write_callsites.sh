#!/bin/bash
# write_callsites.sh: regenerates /verif/assumed_callsites.json from the CURRENT tree: per property, the static call sites of its units'
# functions (those with preconditions) in repository functions that have no contract. Run only on a tree whose call sites were reviewed:
# the check reports every site that is not in this file.
cd /verif
out=$(for p in $(python3 -c "import json;print(' '.join(c['property_id'] for c in json.load(open('MANIFEST.json'))['checks']))"); do
  GOVC_WRITE_CALLSITES=1 VERIF_EVIDENCE_DIR=$(mktemp -d) ./bin/govc check -property $p 2>&1 | grep "^CALLSITES"
done)
python3 - "$out" <<'PY'
import sys,json
sites={}
for ln in sys.argv[1].splitlines():
    parts=ln.split(' ',2)
    pid=parts[1]; rest=parts[2] if len(parts)>2 else ''
    sites[pid]=[s.strip() for s in rest.split(' | ') if s.strip()]
json.dump({"note":"caller -> callee: static call sites of contracted functions with preconditions in functions that have no contract (entry points, goroutine bodies, convenience wrappers): the callee's precondition is ASSUMED there. A site that is not listed is reported by the owning check as an undischarged precondition obligation.","sites":sites},open('/verif/assumed_callsites.json','w'),indent=1)
print(sum(len(v) for v in sites.values()),"sites")
PY
