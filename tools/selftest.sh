#!/bin/bash
# selftest.sh [ID-n ...]: the must-fail corpus. Re-confirms every seeded change under /verif/seeded (or the named ones) against the
# current engine, models and contracts: each must still build, pass the pinned tests, be demonstrated, and be reported as a VIOLATION
# by the check of the property it was written against. Prints one line per change and a summary; exit 1 if one is no longer caught.
cd /verif
list=${@:-$(ls seeded)}
bad=0; n=0
for d in $list; do
  id=${d%-*}; k=${d#*-}
  r=$(./tools/confirm_seeded.sh $id $k $id 2>&1 | grep '^RESULT')
  n=$((n+1))
  if echo "$r" | grep -q "build=0 pinned_tests=0 demo_clean=0(0=pass) demo_changed=[1-9].* $id:rc=1,viol=[1-9]"; then
    echo "caught   $d $(echo "$r" | sed 's/.*checks://' | cut -c1-160)"
  else
    echo "NOT-OK   $d $r"; bad=$((bad+1))
  fi
done
echo "selftest: $n seeded changes, $bad not caught or not confirmed"
[ $bad = 0 ]
