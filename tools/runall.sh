#!/bin/bash
# run every claimed check (quick tier unless $1 given) and print one summary line each
tier=${1:-quick}
cd /verif
rc=0
for p in $(python3 -c "import json;print(' '.join(c['property_id'] for c in json.load(open('MANIFEST.json'))['checks']))"); do
  out=$(./bin/govc check -property $p -tier $tier 2>&1); r=$?
  echo "$out" | grep -E "^property|KNOWN-FINDING" | head -5
  echo "$out" | grep "^VIOLATION" | head -3
  [ $r != 0 ] && rc=1 && echo "  EXIT $r for $p"
done
exit $rc
