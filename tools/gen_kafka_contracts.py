#!/usr/bin/env python3
"""Prints the field-mapping contract block (kFlowTypeNKinds / kFlowTypeNMaps / addAllFieldsToFlowTypeN with one clause and one loop
invariant per `case` of the switch) for the two shipped Kafka convertors, generated from /repo/pkg/kafka/producer/convertor/test/flowtype{1,2}.go.
The block in pkg/kafka/producer/convertor/test/zz_verif_contracts.go was produced by this script (then the `replay kafkafields`
line and the modifies list were added by hand). Re-run and compare after a change to the switch: a mapping that is added to the
code but not to the contract is outside the contract's frame and fails the unit's frame obligation; a mapping that is changed fails
its f_<Field> clause."""
import re, sys
base = (sys.argv[1] if len(sys.argv) > 1 else '/repo') + '/pkg/kafka/producer/convertor/test/'
def parse(fn):
    s = open(base + fn).read()
    body = s[s.index('func addAllFieldsTo'):]
    cases = re.findall(r'case ((?:"[A-Za-z0-9]+"(?:, )?)+):\n((?:\t\t\t.*\n)+)', body)
    out = []
    for names, blk in cases:
        ns = re.findall(r'"([A-Za-z0-9]+)"', names)
        m = re.search(r'flowMsg\.(\w+) = (?:uint32\()?(?:ie\.Get(\w+)Value\(\)|portVal|protoVal)', blk)
        g = re.search(r'ie\.Get(\w+)Value\(\)', blk)
        if m and g and 'String()' not in blk:
            out.append((ns[0], m.group(1), g.group(1)))
        else:
            out.append((ns, None, 'IP'))
    return out
val = {'Unsigned32': 'kU32', 'Unsigned16': 'kU16', 'Unsigned8': 'kU8', 'Unsigned64': 'kU64', 'String': 'kStr'}
kindp = {'Unsigned32': 'kIsU32(kElems(r)[j])', 'Unsigned16': 'dt(kElems(r)[j]) == Unsigned16', 'Unsigned8': 'dt(kElems(r)[j]) == Unsigned8',
         'Unsigned64': 'dt(kElems(r)[j]) == Unsigned64', 'String': 'dt(kElems(r)[j]) == String',
         'IP': '(dt(kElems(r)[j]) == Ipv4Address || dt(kElems(r)[j]) == Ipv6Address)'}
out = []
for T, fn in (('FlowType1', 'flowtype1.go'), ('FlowType2', 'flowtype2.go')):
    cs = parse(fn)
    kl = []
    for n, f, g in cs:
        if f is None:
            for nm in n:
                kl.append('(ie(kElems(r)[j]).Name == "%s" ==> %s)' % (nm, kindp['IP']))
        else:
            kl.append('(ie(kElems(r)[j]).Name == "%s" ==> %s)' % (n, kindp[g]))
    out.append('//@ pure k%sKinds(r entities.Record) bool = forall j in [0, len(kElems(r))):\n//@     ' % T + '\n//@     && '.join(kl))
    mapped = [(n, f, g) for n, f, g in cs if f]
    out.append('//@ pure k%sMaps(m *protobuf.%s, r entities.Record, j int) bool =\n//@     ' % (T, T) +
               '\n//@     && '.join('(kLast(r, "%s", j) ==> m.%s == %s(kElems(r)[j]))' % (n, f, val[g]) for n, f, g in mapped))
    out.append('//@ func addAllFieldsTo%s(flowMsg, record) ()' % T)
    out.append('//@   requires nn: flowMsg != nil')
    out.append('//@   requires rec: kRecOK(record) && k%sKinds(record)' % T)
    out.append('//@   given j0')
    for n, f, g in mapped:
        out.append('//@   ensures  f_%s: kLast(record, "%s", j0) ==> flowMsg.%s == %s(kElems(record)[j0])' % (f, n, f, val[g]))
    out.append('//@   ensures  maps: k%sMaps(flowMsg, record, j0)' % T)
    out.append('//@   loop 1 invariant cnt: 0 <= $i && $i <= len(kElems(record))')
    for n, f, g in mapped:
        out.append('//@   loop 1 invariant f_%s: kLastTo(record, "%s", j0, $i) ==> flowMsg.%s == %s(kElems(record)[j0])' % (f, n, f, val[g]))
    out.append('')
print('\n'.join(out))
