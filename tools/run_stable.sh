#!/bin/bash
# usage: run_stable.sh <tree>   -- runs the 103 pinned (stable) tests of go-ipfix in that tree, package by package
cd "$1" || exit 2
export GOFLAGS=-mod=mod GOPROXY=off GOSUMDB=off GOTOOLCHAIN=local
rc=0
go test -vet=off -count=1 -timeout 10m -run '^(TestAddIPFIXMessage|TestFlowRecordHandler)$' ./cmd/collector 2>&1 | tail -15 || rc=1
[ ${PIPESTATUS[0]} != 0 ] && rc=1
go test -vet=off -count=1 -timeout 10m -run '^(TestCollectingProcess_DecodeDataRecord|TestCollectingProcess_DecodeTemplateRecord|TestFakeAfterFunc|TestTCPCollectingProcess_ConcurrentClient|TestTCPCollectingProcess_ReceiveDataRecord|TestTCPCollectingProcess_ReceiveDataRecordsMemoryUsage|TestTCPCollectingProcess_ReceiveInvalidTemplateRecord|TestTCPCollectingProcess_ReceiveTemplateRecord|TestUDPCollectingProcess_DecodePacketError|TestUDPCollectingProcess_ReceiveDataRecord|TestUDPCollectingProcess_ReceiveTemplateRecord|TestUDPCollectingProcess_TemplateAddAndDelete|TestUDPCollectingProcess_TemplateExpire|TestUDPCollectingProcess_TemplateUpdate)$' ./pkg/collector 2>&1 | tail -15 || rc=1
[ ${PIPESTATUS[0]} != 0 ] && rc=1
go test -vet=off -count=1 -timeout 10m -run '^(TestAddInfoElements|TestAddRecordIPAddresses|TestDecodeToIEDataType|TestEncodeInfoElementValueToBuffOctetArray|TestEncodeToIEDataType|TestGetElementMap|TestGetHeaderBuffer|TestGetInfoElementWithValue|TestGetNumberOfRecords|TestGetRecords|TestGetSetType|TestMakeDataSet|TestMakeTemplateSet|TestMessage_SetAndGetFunctions|TestNewInfoElementWithValue|TestPrepareRecord|TestSet_UpdateLenInHeader)$' ./pkg/entities 2>&1 | tail -15 || rc=1
[ ${PIPESTATUS[0]} != 0 ] && rc=1
go test -vet=off -count=1 -timeout 10m -run '^(TestExportingProcess_CheckConnToCollector|TestExportingProcess_CloseConnToCollectorTwice|TestExportingProcess_GetMsgSizeLimit|TestExportingProcess_SendingDataRecordToLocalTCPServer|TestExportingProcess_SendingDataRecordToLocalUDPServer|TestExportingProcess_SendingTemplateRecordToLocalTCPServer|TestExportingProcess_SendingTemplateRecordToLocalUDPServer|TestInitExportingProcessWithTLS)$' ./pkg/exporter 2>&1 | tail -15 || rc=1
[ ${PIPESTATUS[0]} != 0 ] && rc=1
go test -vet=off -count=1 -timeout 10m -run '^(TestAggregateMsgByFlowKey|TestAggregateRecordsForInterNodeFlow|TestAggregationProcess|TestCorrelateRecordsForInterNodeDenyFlow|TestCorrelateRecordsForInterNodeFlow|TestCorrelateRecordsForIntraNodeFlow|TestCorrelateRecordsForToExternalFlow|TestDeleteFlowKeyFromMapWithLock|TestFillHttpVals|TestForAllExpiredFlowRecordsDo|TestGetExpiryFromExpirePriorityQueue|TestGetRecords|TestGetTupleRecordMap|TestInitAggregationProcess|TestTimeToExpirePriorityQueue)$' ./pkg/intermediate 2>&1 | tail -15 || rc=1
[ ${PIPESTATUS[0]} != 0 ] && rc=1
go test -vet=off -count=1 -timeout 10m -run '^(TestKafkaProducer_Publish)$' ./pkg/kafka/producer/convertor/test 2>&1 | tail -15 || rc=1
[ ${PIPESTATUS[0]} != 0 ] && rc=1
go test -vet=off -count=1 -timeout 10m -run '^(TestGetIANAReverseIE|TestGetInfoElement|TestGetInfoElementFromID|TestLoadRegistry)$' ./pkg/registry 2>&1 | tail -15 || rc=1
[ ${PIPESTATUS[0]} != 0 ] && rc=1
exit $rc
