#!/bin/bash
# usage: mut.sh <file-relative-to-repo> <python-regex-old> <new> -- govc unit args...
# applies a one-off textual mutation to /repo, runs govc unit, restores the file.
set -u
f=$1; old=$2; new=$3; shift 3; [ "$1" = "--" ] && shift
cd /repo || exit 2
cp "$f" /tmp/mut.bak
python3 - "$f" "$old" "$new" <<'PY'
import sys,re
f,old,new=sys.argv[1:4]
s=open(f).read()
n=len(re.findall(old,s))
if n!=1:
    print("MUT: pattern matched",n,"times"); sys.exit(3)
s=re.sub(old,lambda m:new,s,count=1)
open(f,'w').write(s)
PY
rc=$?
if [ $rc = 0 ]; then
  (cd /repo && GOFLAGS=-mod=mod GOPROXY=off GOSUMDB=off GOTOOLCHAIN=local go build ./... 2>&1 | head -5)
  cd /verif && "$@" 2>&1 | cut -c1-220 | grep -v "^note" | tail -12
fi
cp /tmp/mut.bak "/repo/$f"
cd /repo && git status --short | head -3
