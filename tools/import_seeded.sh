#!/bin/bash
# import_seeded.sh <outdir> <ID>   -- copies a sub-agent's changes <outdir>/<ID>/<n>/ to /verif/seeded/<ID>-<m> (m continues the numbering)
out=$1; id=$2
last=$(ls -d /verif/seeded/$id-* 2>/dev/null | sed "s/.*$id-//" | sort -n | tail -1); last=${last:-0}
for d in $(ls -d $out/$id/[0-9]* 2>/dev/null | sort); do
  [ -f $d/patch.diff ] || continue
  last=$((last+1)); dst=/verif/seeded/$id-$last
  mkdir -p $dst; cp $d/patch.diff $d/zz_demo_test.go $d/meta.json $dst/
  python3 - $dst/meta.json $last <<'PY'
import json,sys
p,n=sys.argv[1],int(sys.argv[2])
m=json.load(open(p)); m['n_in_round']=m.get('n'); m['n']=n; m['round']=4
json.dump(m,open(p,'w'),indent=1)
PY
  echo "$d -> $dst"
done
