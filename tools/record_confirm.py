#!/usr/bin/env python3
# record_confirm.py <log>...  -- writes the RESULT lines of tools/confirm_seeded.sh into the meta.json of the seeded changes
import json,re,sys
for log in sys.argv[1:]:
    for ln in open(log):
        m=re.match(r'RESULT (\w+)/(\d+) build=(\d+) pinned_tests=(\d+) demo_clean=(\d+)\S* demo_changed=(\d+)\S* \S* checks:(.*)',ln)
        if not m: continue
        pid,n,build,tests,clean,mut,checks=m.groups()
        p=f'/verif/seeded/{pid}-{n}/meta.json'
        meta=json.load(open(p))
        meta.setdefault('origin',f"produced by a sub-agent given only the property text and a scratch worktree; nothing from /verif (round {meta.get('round')})")
        meta['confirmed']={'builds':build=='0','pinned_tests_pass':tests=='0','demo_passes_on_unchanged_tree':clean=='0','demo_fails_on_changed_tree':mut!='0','how':'tools/confirm_seeded.sh in a scratch worktree of /repo HEAD'}
        ch={}
        for c in re.finditer(r'(\w+):rc=(\d+),viol=(\d+)\[([^\]]*)\]',checks):
            firsts=[x.strip() for x in c.group(4).split(';') if x.strip()]
            ch[c.group(1)]={'exit':int(c.group(2)),'violations':int(c.group(3)),'first_obligations':firsts}
        prev=meta.get('checks')
        if prev and prev!=ch and all(v['exit']==0 for v in prev.values()) and 'first_pass' not in meta:
            meta['first_pass']=prev
        meta['checks']=ch
        meta['caught_by']=[k for k,v in ch.items() if v['exit']!=0]
        json.dump(meta,open(p,'w'),indent=1)
        print(pid,n,meta['caught_by'] or 'MISSED', 'tests_ok' if tests=='0' else 'PINNED TESTS FAILED')
