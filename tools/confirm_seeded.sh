#!/bin/bash
# confirm_seeded.sh <ID> <n> [props...]
# Re-confirms one seeded change kept under /verif/seeded/<ID>-<n> in a scratch worktree of /repo HEAD (under /tmp, removed afterwards):
#   the patch applies and builds, the pinned tests pass, the demonstration passes on the unchanged tree and fails on the changed tree,
# then runs the named property checks (default: <ID>) against the changed tree with the evidence redirected to scratch.
# Prints one RESULT line; /repo and /verif/evidence are not touched.  (SRC=<dir> overrides the source directory.)
id=$1; n=$2; shift 2; props=${@:-$id}
src=${SRC:-/verif/seeded/$id-$n}
wt=/tmp/wt-confirm-$id-$n
GOVC=${GOVC:-/verif/bin/govc}
export GOFLAGS=-mod=mod GOPROXY=off GOSUMDB=off GOTOOLCHAIN=local
git -C /repo worktree remove --force $wt 2>/dev/null
git -C /repo worktree add -q --detach $wt HEAD || exit 2
pkg=$(python3 -c "import json;print(json.load(open('$src/meta.json'))['package_for_demo'])")
cp $src/zz_demo_test.go $wt/$pkg/zz_demo_test.go
(cd $wt && go test -vet=off -count=1 -timeout 180s -run '^TestSeededDemo$' $pkg >/tmp/confirm-$id-$n.clean.log 2>&1); clean=$?
(cd $wt && git apply $src/patch.diff) || { echo "RESULT $id/$n patch-does-not-apply"; git -C /repo worktree remove --force $wt; exit 1; }
(cd $wt && go build ./... >/tmp/confirm-$id-$n.build.log 2>&1); build=$?
(cd $wt && go test -vet=off -count=1 -timeout 180s -run '^TestSeededDemo$' $pkg >/tmp/confirm-$id-$n.mut.log 2>&1); mut=$?
rm -f $wt/$pkg/zz_demo_test.go
/verif/tools/run_stable.sh $wt >/tmp/confirm-$id-$n.tests.log 2>&1; tests=$?
caught=""
for p in $props; do
  ev=/tmp/confirm-ev-$id-$n-$p; rm -rf $ev; mkdir -p $ev
  out=$(cd /verif && VERIF_EVIDENCE_DIR=$ev $GOVC check -repo $wt -property $p -tier quick 2>&1); rc=$?
  v=$(echo "$out" | grep -c '^VIOLATION')
  first=$(echo "$out" | grep '^VIOLATION' | head -3 | sed 's/.*replays\/[A-Z0-9]*\///' | tr '\n' ';')
  caught="$caught $p:rc=$rc,viol=$v[$first]"
  rm -rf $ev
done
echo "RESULT $id/$n build=$build pinned_tests=$tests demo_clean=$clean(0=pass) demo_changed=$mut(!=0 fail) checks:$caught"
git -C /repo worktree remove --force $wt
rm -f /tmp/confirm-$id-$n.*.log
