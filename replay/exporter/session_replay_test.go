package exporter

// Replay / directed-search driver for SendSet (C08, C09): in-package, injected
// with go test -overlay. A byte-capturing connection stands in for the collector.

import (
	"encoding/binary"
	"encoding/json"
	"fmt"
	"net"
	"os"
	"testing"
	"time"

	"github.com/vmware/go-ipfix/pkg/entities"
)

type vrConn struct {
	writes [][]byte
	failAt int
}

func (c *vrConn) Read(b []byte) (int, error)  { return 0, nil }
func (c *vrConn) Write(b []byte) (int, error) { c.writes = append(c.writes, append([]byte{}, b...)); return len(b), nil }
func (c *vrConn) Close() error                { return nil }
func (c *vrConn) LocalAddr() net.Addr         { return &net.TCPAddr{} }
func (c *vrConn) RemoteAddr() net.Addr        { return &net.TCPAddr{} }
func (c *vrConn) SetDeadline(time.Time) error { return nil }
func (c *vrConn) SetReadDeadline(time.Time) error  { return nil }
func (c *vrConn) SetWriteDeadline(time.Time) error { return nil }

type vrRes struct {
	Reproduced bool        `json:"reproduced"`
	Clause     string      `json:"clause,omitempty"`
	Detail     string      `json:"detail,omitempty"`
	Input      interface{} `json:"input,omitempty"`
	Tried      int         `json:"tried"`
}

func vrNewEP(seq uint32) (*ExportingProcess, *vrConn) {
	c := &vrConn{}
	ep := &ExportingProcess{connToCollector: c, obsDomainID: 77, seqNumber: seq, templateID: 255,
		templatesMap: make(map[uint16]templateValue), stopCh: make(chan struct{})}
	return ep, c
}

var vrIEs = []*entities.InfoElement{
	entities.NewInfoElement("sourceIPv4Address", 8, entities.Ipv4Address, 0, 4),
	entities.NewInfoElement("octetDeltaCount", 1, entities.Unsigned64, 0, 8),
	entities.NewInfoElement("x", 300, entities.String, 56506, 65535),
}

func vrTemplate(id uint16) entities.Set {
	s := entities.NewSet(false)
	s.PrepareSet(entities.Template, id)
	var els []entities.InfoElementWithValue
	for _, ie := range vrIEs {
		e, _ := entities.DecodeAndCreateInfoElementWithValue(ie, nil)
		els = append(els, e)
	}
	s.AddRecord(els, id)
	return s
}

func vrData(hdrID, recID uint16, nrec int, ip net.IP, strLen int) entities.Set {
	s := entities.NewSet(false)
	s.PrepareSet(entities.Data, hdrID)
	for i := 0; i < nrec; i++ {
		els := []entities.InfoElementWithValue{
			entities.NewIPAddressInfoElement(vrIEs[0], ip),
			entities.NewUnsigned64InfoElement(vrIEs[1], uint64(i)),
			entities.NewStringInfoElement(vrIEs[2], string(make([]byte, strLen))),
		}
		s.AddRecord(els, recID)
	}
	return s
}

type vrCase struct {
	Name  string `json:"name"`
	Seq   uint32 `json:"start_seq"`
	HdrID uint16 `json:"header_id"`
	RecID uint16 `json:"record_id"`
	NRec  int    `json:"records"`
	IPLen int    `json:"ip_len"`
	Str   int    `json:"string_len"`
}

func vrRun(c vrCase) (clause, detail string) {
	defer func() {
		if r := recover(); r != nil {
			clause, detail = "safe", fmt.Sprint("panic: ", r)
		}
	}()
	ep, conn := vrNewEP(c.Seq)
	if n, err := ep.SendSet(vrTemplate(256)); err != nil || len(conn.writes) != 1 || n != len(conn.writes[0]) {
		return "post[ok]", fmt.Sprintf("template send: n=%d err=%v writes=%d", n, err, len(conn.writes))
	}
	if ep.seqNumber != c.Seq {
		return "post[seq]", "template message advanced the sequence number"
	}
	ip := net.IP(make([]byte, c.IPLen))
	set := vrData(c.HdrID, c.RecID, c.NRec, ip, c.Str)
	setLen := set.GetSetLength()
	before := len(conn.writes)
	t0 := time.Now().Unix()
	n, err := ep.SendSet(set)
	t1 := time.Now().Unix()
	sent := len(conn.writes) - before
	valid := c.HdrID == 256 && c.RecID == 256 && c.IPLen == 4
	fits := 16+setLen <= 65535
	if sent > 1 {
		return "post[atmost]", "more than one message written"
	}
	if sent == 1 && !valid {
		return "post[sentok/hdrid/faithful]", fmt.Sprintf("invalid data set transmitted (header id %d, record id %d, ip length %d), err=%v", c.HdrID, c.RecID, c.IPLen, err)
	}
	if sent == 1 && !fits {
		return "post[toobig]", fmt.Sprintf("message of %d bytes transmitted", 16+setLen)
	}
	if sent == 0 && err == nil {
		return "post[ok]", "nil error but nothing written"
	}
	if valid && fits && sent != 1 {
		return "post[boundary]", fmt.Sprintf("valid set of %d bytes not sent: %v", 16+setLen, err)
	}
	if sent == 1 {
		m := conn.writes[len(conn.writes)-1]
		if err == nil && n != len(m) {
			return "post[ok]", "byte count differs from bytes written"
		}
		if len(m) != 16+setLen || int(binary.BigEndian.Uint16(m[2:4])) != len(m) || binary.BigEndian.Uint16(m[0:2]) != 10 {
			return "post[ok]", "header length/version wrong"
		}
		if binary.BigEndian.Uint32(m[8:12]) != c.Seq+uint32(c.NRec) || ep.seqNumber != c.Seq+uint32(c.NRec) {
			return "post[seq]", fmt.Sprintf("sequence %d, expected %d", binary.BigEndian.Uint32(m[8:12]), c.Seq+uint32(c.NRec))
		}
		if binary.BigEndian.Uint32(m[12:16]) != 77 {
			return "post[ok]", "observation domain wrong"
		}
		if et := int64(binary.BigEndian.Uint32(m[4:8])); et < t0 || et > t1 {
			return "post[ok]", "export time is not the second of sending"
		}
		if binary.BigEndian.Uint16(m[16:18]) != c.HdrID || int(binary.BigEndian.Uint16(m[18:20])) != setLen {
			return "post[sethdr]", "set header wrong"
		}
	}
	return "", ""
}

func TestVerifReplaySession(t *testing.T) {
	var cases []vrCase
	for _, seq := range []uint32{0, 4294967290} {
		cases = append(cases,
			vrCase{"valid", seq, 256, 256, 3, 4, 5},
			vrCase{"empty-unknown-header-id", seq, 999, 999, 0, 4, 5},
			vrCase{"header-id-differs-from-record-id", seq, 256, 300, 1, 4, 5},
			vrCase{"unknown-record-id", seq, 300, 300, 1, 4, 5},
			vrCase{"ipv6-in-ipv4-element", seq, 256, 256, 2, 16, 5},
			vrCase{"ip-of-3-bytes", seq, 256, 256, 1, 3, 0},
		)
		// sizes around the 65535 limit: record = 4 + 8 + 3 + strLen
		for total := 65519; total <= 65540; total++ {
			cases = append(cases, vrCase{"size", seq, 256, 256, 1, 4, total - 16 - 4 - 15})
		}
	}
	res := vrRes{}
	for _, c := range cases {
		res.Tried++
		if cl, d := vrRun(c); cl != "" {
			res.Reproduced, res.Clause, res.Detail, res.Input = true, cl, d, c
			break
		}
	}
	data, _ := json.MarshalIndent(res, "", " ")
	if p := os.Getenv("VERIF_REPLAY_OUT"); p != "" {
		os.WriteFile(p, data, 0o644)
	}
	fmt.Println(string(data))
}
