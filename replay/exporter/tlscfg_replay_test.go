package exporter

// Replay driver for the exporter's TLS client configuration (C18): in-package, injected with go test -overlay.
// It calls the real createClientConfig with a freshly generated CA (and optional client key pair) and checks
// the configuration fields the contract talks about; then it performs real handshakes against a local TLS
// server to show the consequence (a server certificate from another CA must be refused).

import (
	"crypto/ecdsa"
	"crypto/elliptic"
	"crypto/rand"
	"crypto/tls"
	"crypto/x509"
	"crypto/x509/pkix"
	"encoding/json"
	"encoding/pem"
	"fmt"
	"math/big"
	"net"
	"os"
	"testing"
	"time"
)

type vtRes struct {
	Reproduced bool        `json:"reproduced"`
	Clause     string      `json:"clause,omitempty"`
	Detail     string      `json:"detail,omitempty"`
	Input      interface{} `json:"input,omitempty"`
	Tried      int         `json:"tried"`
}

func vtCA(cn string) (certPEM, keyPEM []byte, cert *x509.Certificate, key *ecdsa.PrivateKey) {
	key, _ = ecdsa.GenerateKey(elliptic.P256(), rand.Reader)
	tpl := &x509.Certificate{SerialNumber: big.NewInt(time.Now().UnixNano()), Subject: pkix.Name{CommonName: cn}, NotBefore: time.Now().Add(-time.Hour), NotAfter: time.Now().Add(time.Hour),
		IsCA: true, BasicConstraintsValid: true, KeyUsage: x509.KeyUsageCertSign | x509.KeyUsageDigitalSignature}
	der, _ := x509.CreateCertificate(rand.Reader, tpl, tpl, &key.PublicKey, key)
	cert, _ = x509.ParseCertificate(der)
	kb, _ := x509.MarshalECPrivateKey(key)
	return pem.EncodeToMemory(&pem.Block{Type: "CERTIFICATE", Bytes: der}), pem.EncodeToMemory(&pem.Block{Type: "EC PRIVATE KEY", Bytes: kb}), cert, key
}

func vtLeaf(ca *x509.Certificate, caKey *ecdsa.PrivateKey, name string) (certPEM, keyPEM []byte) {
	key, _ := ecdsa.GenerateKey(elliptic.P256(), rand.Reader)
	tpl := &x509.Certificate{SerialNumber: big.NewInt(time.Now().UnixNano() + 1), Subject: pkix.Name{CommonName: name}, NotBefore: time.Now().Add(-time.Hour), NotAfter: time.Now().Add(time.Hour),
		DNSNames: []string{name}, IPAddresses: []net.IP{net.ParseIP("127.0.0.1")}, KeyUsage: x509.KeyUsageDigitalSignature, ExtKeyUsage: []x509.ExtKeyUsage{x509.ExtKeyUsageServerAuth, x509.ExtKeyUsageClientAuth}}
	der, _ := x509.CreateCertificate(rand.Reader, tpl, ca, &key.PublicKey, caKey)
	kb, _ := x509.MarshalECPrivateKey(key)
	return pem.EncodeToMemory(&pem.Block{Type: "CERTIFICATE", Bytes: der}), pem.EncodeToMemory(&pem.Block{Type: "EC PRIVATE KEY", Bytes: kb})
}

func vtHandshake(cfg *tls.Config, srvCert, srvKey []byte, maxVer uint16) error {
	pair, err := tls.X509KeyPair(srvCert, srvKey)
	if err != nil {
		return fmt.Errorf("setup: %v", err)
	}
	ln, err := tls.Listen("tcp", "127.0.0.1:0", &tls.Config{Certificates: []tls.Certificate{pair}, MinVersion: tls.VersionTLS10, MaxVersion: maxVer})
	if err != nil {
		return fmt.Errorf("setup: %v", err)
	}
	defer ln.Close()
	go func() {
		c, err := ln.Accept()
		if err == nil {
			c.(*tls.Conn).Handshake()
			c.Close()
		}
	}()
	d := &net.Dialer{Timeout: 3 * time.Second}
	c, err := tls.DialWithDialer(d, "tcp", ln.Addr().String(), cfg)
	if err != nil {
		return err
	}
	c.Close()
	return nil
}

func vtRun() (string, string, interface{}) {
	caPEM, _, ca, caKey := vtCA("verif-ca")
	_, _, other, otherKey := vtCA("other-ca")
	srvCert, srvKey := vtLeaf(ca, caKey, "collector.example")
	badCert, badKey := vtLeaf(other, otherKey, "collector.example")
	cliCert, cliKey := vtLeaf(ca, caKey, "exporter.example")
	for _, withCert := range []bool{false, true} {
		in := &ExporterTLSClientConfig{ServerName: "collector.example", CAData: caPEM}
		if withCert {
			in.CertData, in.KeyData = cliCert, cliKey
		}
		cfg, err := createClientConfig(in)
		if err != nil {
			return "", "", nil
		}
		switch {
		case cfg.RootCAs == nil:
			return "post[ok]", "client configuration has no RootCAs: the system roots would be trusted instead of the configured CA", withCert
		case cfg.InsecureSkipVerify:
			return "post[ok]", "client configuration skips server verification", withCert
		case cfg.MinVersion < tls.VersionTLS12:
			return "post[ok]", fmt.Sprintf("client configuration allows TLS version %#x (< TLS 1.2)", cfg.MinVersion), withCert
		case cfg.ServerName != in.ServerName:
			return "post[ok]", "client configuration does not carry the expected server name", withCert
		case withCert && len(cfg.Certificates) != 1:
			return "post[cert]", "client key pair not installed", withCert
		}
		if err := vtHandshake(cfg, srvCert, srvKey, tls.VersionTLS13); err != nil {
			return "", "", nil // environment: cannot complete even the good handshake
		}
		if err := vtHandshake(cfg, badCert, badKey, tls.VersionTLS13); err == nil {
			return "post[ok]", "handshake completed with a server certificate issued by another CA", withCert
		}
		if err := vtHandshake(cfg, srvCert, srvKey, tls.VersionTLS11); err == nil {
			return "post[ok]", "handshake completed at TLS 1.1", withCert
		}
	}
	if _, err := createClientConfig(&ExporterTLSClientConfig{CAData: []byte("not pem")}); err == nil {
		return "post[ok]", "unparsable CA data accepted", "not pem"
	}
	return "", "", nil
}

func TestVerifReplayTLSConfig(t *testing.T) {
	res := vtRes{Tried: 1}
	if cl, d, in := vtRun(); cl != "" {
		res.Reproduced, res.Clause, res.Detail, res.Input = true, cl, d, in
	}
	data, _ := json.MarshalIndent(res, "", " ")
	if p := os.Getenv("VERIF_REPLAY_OUT"); p != "" {
		os.WriteFile(p, data, 0o644)
	}
	fmt.Println(string(data))
}
