package collector

// Replay / directed-search driver for the UDP template lifetime (C10): in-package, injected with go test -overlay.
// Drives the real addTemplate / deleteTemplate / timer callback with a fake clock over all short
// histories of {template, refresh, invalidate, advance d} for 2 ids x 2 domains and compares the store with a
// reference model: a template is stored iff it was (re)sent and neither invalidated nor older than the TTL at a
// moment its timer ran; it is never dropped before last refresh + TTL.

import (
	"encoding/json"
	"fmt"
	"os"
	"testing"
	"time"

	"github.com/vmware/go-ipfix/pkg/entities"
)

type vlRes struct {
	Reproduced bool        `json:"reproduced"`
	Clause     string      `json:"clause,omitempty"`
	Detail     string      `json:"detail,omitempty"`
	Input      interface{} `json:"input,omitempty"`
	Tried      int         `json:"tried"`
}

// vlClock: the driver's own clock (the package's fakeClock is not used: its fakeTimer.Stop drops other timers).
type vlClock struct {
	now    time.Time
	timers []*vlTimer
}

type vlTimer struct {
	c      *vlClock
	at     time.Time
	f      func()
	active bool
}

func (c *vlClock) Now() time.Time { return c.now }
func (c *vlClock) AfterFunc(d time.Duration, f func()) timer {
	t := &vlTimer{c: c, at: c.now.Add(d), f: f, active: true}
	c.timers = append(c.timers, t)
	return t
}
func (t *vlTimer) Stop() bool { was := t.active; t.active = false; return was }
func (t *vlTimer) Reset(d time.Duration) bool {
	was := t.active
	t.active, t.at = true, t.c.now.Add(d)
	return was
}
func (c *vlClock) Step(d time.Duration) {
	c.now = c.now.Add(d)
	for _, t := range c.timers {
		if t.active && !t.at.After(c.now) {
			t.active = false
			t.f()
		}
	}
}

type vlStep struct {
	Op  string `json:"op"` // add | del | step
	Dom uint32 `json:"dom,omitempty"`
	ID  uint16 `json:"id,omitempty"`
	Ms  int    `json:"ms,omitempty"`
}

func vlRun(steps []vlStep) (string, string) {
	start := time.Unix(1_700_000_000, 0)
	clk := &vlClock{now: start}
	cp, err := initCollectingProcess(CollectorInput{Address: "127.0.0.1:0", Protocol: "udp", MaxBufferSize: 1024, TemplateTTL: 2}, clk)
	if err != nil {
		return "", ""
	}
	ttl := 2 * time.Second
	type key struct {
		d uint32
		i uint16
	}
	expiry := map[key]time.Time{} // reference: stored templates and their expiry instants
	now := start
	el := entities.NewUnsigned8InfoElement(entities.NewInfoElement("protocolIdentifier", 4, entities.Unsigned8, 0, 1), 0)
	for n, s := range steps {
		switch s.Op {
		case "add":
			cp.addTemplate(s.Dom, s.ID, []entities.InfoElementWithValue{el})
			expiry[key{s.Dom, s.ID}] = now.Add(ttl)
			tpl := cp.templatesMap[s.Dom][s.ID]
			if tpl == nil || !tpl.expiryTime.Equal(now.Add(ttl)) || tpl.expiryTimer == nil {
				return "post[ttl]", fmt.Sprintf("after step %d: expiry time / timer of the (re)sent template not set to now + TTL", n)
			}
		case "del":
			cp.deleteTemplate(s.Dom, s.ID)
			delete(expiry, key{s.Dom, s.ID})
		case "step":
			// advance in 250 ms slices so that timers run close to their instants
			for left := s.Ms; left > 0; left -= 250 {
				d := 250
				if left < d {
					d = left
				}
				clk.Step(time.Duration(d) * time.Millisecond)
				now = now.Add(time.Duration(d) * time.Millisecond)
				for k, e := range expiry {
					if !e.After(now) {
						delete(expiry, k)
					}
				}
			}
		}
		for _, d := range []uint32{1, 2} {
			for _, i := range []uint16{256, 257} {
				_, want := expiry[key{d, i}]
				_, err := cp.getTemplateIEs(d, i)
				got := err == nil
				if want && !got {
					return "post[early]", fmt.Sprintf("after step %d (%v): template (%d,%d) dropped before last refresh + TTL", n, s, d, i)
				}
				if !want && got {
					return "post[expired]", fmt.Sprintf("after step %d (%v): template (%d,%d) still usable although invalidated or older than its TTL after its timer ran", n, s, d, i)
				}
			}
		}
	}
	return "", ""
}

func TestVerifReplayTemplateTTL(t *testing.T) {
	res := vlRes{}
	ops := []vlStep{{Op: "add", Dom: 1, ID: 256}, {Op: "add", Dom: 1, ID: 257}, {Op: "add", Dom: 2, ID: 256}, {Op: "del", Dom: 1, ID: 256},
		{Op: "step", Ms: 500}, {Op: "step", Ms: 1750}, {Op: "step", Ms: 2000}, {Op: "step", Ms: 2250}}
	var rec func(prefix []vlStep, depth int) bool
	rec = func(prefix []vlStep, depth int) bool {
		if depth == 0 {
			res.Tried++
			if cl, d := vlRun(prefix); cl != "" {
				res.Reproduced, res.Clause, res.Detail, res.Input = true, cl, d, append([]vlStep{}, prefix...)
				return true
			}
			return false
		}
		for _, o := range ops {
			if rec(append(prefix, o), depth-1) {
				return true
			}
		}
		return false
	}
	for depth := 1; depth <= 4 && !res.Reproduced; depth++ {
		rec(nil, depth)
	}
	data, _ := json.MarshalIndent(res, "", " ")
	if p := os.Getenv("VERIF_REPLAY_OUT"); p != "" {
		os.WriteFile(p, data, 0o644)
	}
	fmt.Println(string(data))
}
