package collector

// Replay driver for the collector's TLS server configuration (C18): in-package, injected with go test -overlay.
// Calls the real createServerConfig with generated certificates, checks the fields the contract talks about,
// and shows the consequence with real handshakes (client without / with a foreign certificate must be refused
// when a client CA is configured; TLS 1.1 must be refused).

import (
	"crypto/ecdsa"
	"crypto/elliptic"
	"crypto/rand"
	"crypto/tls"
	"crypto/x509"
	"crypto/x509/pkix"
	"encoding/json"
	"encoding/pem"
	"fmt"
	"math/big"
	"net"
	"os"
	"testing"
	"time"
)

type vsRes struct {
	Reproduced bool        `json:"reproduced"`
	Clause     string      `json:"clause,omitempty"`
	Detail     string      `json:"detail,omitempty"`
	Input      interface{} `json:"input,omitempty"`
	Tried      int         `json:"tried"`
}

func vsCA(cn string) ([]byte, *x509.Certificate, *ecdsa.PrivateKey) {
	key, _ := ecdsa.GenerateKey(elliptic.P256(), rand.Reader)
	tpl := &x509.Certificate{SerialNumber: big.NewInt(time.Now().UnixNano()), Subject: pkix.Name{CommonName: cn}, NotBefore: time.Now().Add(-time.Hour), NotAfter: time.Now().Add(time.Hour),
		IsCA: true, BasicConstraintsValid: true, KeyUsage: x509.KeyUsageCertSign | x509.KeyUsageDigitalSignature}
	der, _ := x509.CreateCertificate(rand.Reader, tpl, tpl, &key.PublicKey, key)
	cert, _ := x509.ParseCertificate(der)
	return pem.EncodeToMemory(&pem.Block{Type: "CERTIFICATE", Bytes: der}), cert, key
}

func vsLeaf(ca *x509.Certificate, caKey *ecdsa.PrivateKey, name string) ([]byte, []byte) {
	key, _ := ecdsa.GenerateKey(elliptic.P256(), rand.Reader)
	tpl := &x509.Certificate{SerialNumber: big.NewInt(time.Now().UnixNano() + 1), Subject: pkix.Name{CommonName: name}, NotBefore: time.Now().Add(-time.Hour), NotAfter: time.Now().Add(time.Hour),
		DNSNames: []string{name}, IPAddresses: []net.IP{net.ParseIP("127.0.0.1")}, KeyUsage: x509.KeyUsageDigitalSignature, ExtKeyUsage: []x509.ExtKeyUsage{x509.ExtKeyUsageServerAuth, x509.ExtKeyUsageClientAuth}}
	der, _ := x509.CreateCertificate(rand.Reader, tpl, ca, &key.PublicKey, caKey)
	kb, _ := x509.MarshalECPrivateKey(key)
	return pem.EncodeToMemory(&pem.Block{Type: "CERTIFICATE", Bytes: der}), pem.EncodeToMemory(&pem.Block{Type: "EC PRIVATE KEY", Bytes: kb})
}

// vsClient: does a client with this configuration get a working session (handshake + one byte echoed)?
func vsClient(srv *tls.Config, cli *tls.Config) error {
	ln, err := tls.Listen("tcp", "127.0.0.1:0", srv)
	if err != nil {
		return fmt.Errorf("setup: %v", err)
	}
	defer ln.Close()
	go func() {
		c, err := ln.Accept()
		if err != nil {
			return
		}
		defer c.Close()
		b := make([]byte, 1)
		if _, err := c.Read(b); err == nil {
			c.Write(b)
		}
	}()
	c, err := tls.DialWithDialer(&net.Dialer{Timeout: 3 * time.Second}, "tcp", ln.Addr().String(), cli)
	if err != nil {
		return err
	}
	defer c.Close()
	c.SetDeadline(time.Now().Add(3 * time.Second))
	if _, err := c.Write([]byte{1}); err != nil {
		return err
	}
	b := make([]byte, 1)
	_, err = c.Read(b)
	return err
}

func vsRun() (string, string, interface{}) {
	caPEM, ca, caKey := vsCA("verif-ca")
	_, other, otherKey := vsCA("other-ca")
	srvCert, srvKey := vsLeaf(ca, caKey, "collector.example")
	cliCert, cliKey := vsLeaf(ca, caKey, "exporter.example")
	badCert, badKey := vsLeaf(other, otherKey, "exporter.example")
	roots := x509.NewCertPool()
	roots.AppendCertsFromPEM(caPEM)
	base := func() *tls.Config { return &tls.Config{RootCAs: roots, ServerName: "collector.example"} }
	for _, withCA := range []bool{false, true} {
		cp := &CollectingProcess{serverCert: srvCert, serverKey: srvKey}
		if withCA {
			cp.caCert = caPEM
		}
		cfg, err := cp.createServerConfig()
		if err != nil {
			return "", "", nil
		}
		if cfg.MinVersion < tls.VersionTLS12 || len(cfg.Certificates) != 1 {
			return "post[min]", fmt.Sprintf("server configuration MinVersion %#x, %d certificates", cfg.MinVersion, len(cfg.Certificates)), withCA
		}
		if withCA && (cfg.ClientAuth != tls.RequireAndVerifyClientCert || cfg.ClientCAs == nil) {
			return "post[ca]", fmt.Sprintf("client CA configured but ClientAuth = %v, ClientCAs nil = %v", cfg.ClientAuth, cfg.ClientCAs == nil), withCA
		}
		old := base()
		old.MaxVersion = tls.VersionTLS11
		old.MinVersion = tls.VersionTLS10
		if withCA {
			p, _ := tls.X509KeyPair(cliCert, cliKey)
			old.Certificates = []tls.Certificate{p}
		}
		if vsClient(cfg, old) == nil {
			return "post[min]", "session established at TLS 1.1", withCA
		}
		if withCA {
			good := base()
			p, _ := tls.X509KeyPair(cliCert, cliKey)
			good.Certificates = []tls.Certificate{p}
			if err := vsClient(cfg, good); err != nil {
				return "", "", nil // environment
			}
			if vsClient(cfg, base()) == nil {
				return "post[ca]", "client CA configured but a client without certificate gets a session", withCA
			}
			bad := base()
			p2, _ := tls.X509KeyPair(badCert, badKey)
			bad.Certificates = []tls.Certificate{p2}
			if vsClient(cfg, bad) == nil {
				return "post[ca]", "client CA configured but a client with a certificate from another CA gets a session", withCA
			}
		}
	}
	return "", "", nil
}

func TestVerifReplayServerTLSConfig(t *testing.T) {
	res := vsRes{Tried: 1}
	if cl, d, in := vsRun(); cl != "" {
		res.Reproduced, res.Clause, res.Detail, res.Input = true, cl, d, in
	}
	data, _ := json.MarshalIndent(res, "", " ")
	if p := os.Getenv("VERIF_REPLAY_OUT"); p != "" {
		os.WriteFile(p, data, 0o644)
	}
	fmt.Println(string(data))
}
