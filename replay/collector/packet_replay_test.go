package collector

// Replay / directed-search driver for the collector's decoding (C03, C04, C17):
// in-package, injected with go test -overlay. The oracle is a reference parser
// written from RFC 7011 §3.4/§7 that shares no code with the library.

import (
	"bytes"
	"encoding/binary"
	"encoding/json"
	"fmt"
	"os"
	"testing"
	"time"

	"github.com/vmware/go-ipfix/pkg/entities"
)

type vrField struct {
	ID, Len uint16
	Ent     uint32
}

type vrPktCase struct {
	Name   string    `json:"name"`
	Mode   string    `json:"mode"`
	Fields []vrField `json:"template_fields"`
	Body   []byte    `json:"data_set_body"`
}

type vrPktRes struct {
	Reproduced bool        `json:"reproduced"`
	Clause     string      `json:"clause,omitempty"`
	Detail     string      `json:"detail,omitempty"`
	Input      interface{} `json:"input,omitempty"`
	Tried      int         `json:"tried"`
}

func vrHeader(setID uint16, body []byte, dom uint32) []byte {
	b := make([]byte, 20+len(body))
	binary.BigEndian.PutUint16(b[0:], 10)
	binary.BigEndian.PutUint16(b[2:], uint16(len(b)))
	binary.BigEndian.PutUint32(b[12:], dom)
	binary.BigEndian.PutUint16(b[16:], setID)
	binary.BigEndian.PutUint16(b[18:], uint16(4+len(body)))
	copy(b[20:], body)
	return b
}

func vrTemplateBody(id uint16, fs []vrField) []byte {
	var b []byte
	b = binary.BigEndian.AppendUint16(b, id)
	b = binary.BigEndian.AppendUint16(b, uint16(len(fs)))
	for _, f := range fs {
		eid := f.ID
		if f.Ent != 0 {
			eid |= 0x8000
		}
		b = binary.BigEndian.AppendUint16(b, eid)
		b = binary.BigEndian.AppendUint16(b, f.Len)
		if f.Ent != 0 {
			b = binary.BigEndian.AppendUint32(b, f.Ent)
		}
	}
	return b
}

// vrRefParse: reference parse of a data set body. ok=false: the body is not a
// whole number of records (a field would be taken from fewer bytes than its width).
func vrRefParse(fs []vrField, body []byte) (nrec int, spans [][][2]int, ok bool) {
	min := 0
	for _, f := range fs {
		if f.Len == 65535 {
			min++
		} else {
			min += int(f.Len)
		}
	}
	pos := 0
	for len(body)-pos > 0 {
		if min == 0 {
			return 0, nil, false // a record that consumes nothing cannot account for the remaining bytes
		}
		if len(body)-pos < min {
			return nrec, spans, true // padding shorter than the shortest record
		}
		var rec [][2]int
		for _, f := range fs {
			w := int(f.Len)
			if f.Len == 65535 {
				if pos >= len(body) {
					return 0, nil, false
				}
				w = int(body[pos])
				pos++
				if w == 255 {
					if pos+2 > len(body) {
						return 0, nil, false
					}
					w = int(binary.BigEndian.Uint16(body[pos:]))
					pos += 2
				}
			}
			if pos+w > len(body) {
				return 0, nil, false
			}
			rec = append(rec, [2]int{pos, pos + w})
			pos += w
		}
		spans = append(spans, rec)
		nrec++
	}
	return nrec, spans, true
}

func vrDecode(cp *CollectingProcess, pkt []byte) (msg *entities.Message, err error, clause, detail string) {
	type out struct {
		m   *entities.Message
		err error
		p   interface{}
	}
	ch := make(chan out, 1)
	go func() {
		defer func() {
			if r := recover(); r != nil {
				ch <- out{p: r}
			}
		}()
		m, e := cp.decodePacket(bytes.NewBuffer(pkt), "10.0.0.1:4739")
		ch <- out{m: m, err: e}
	}()
	select {
	case o := <-ch:
		if o.p != nil {
			return nil, nil, "safe", fmt.Sprint("panic: ", o.p)
		}
		return o.m, o.err, "", ""
	case <-time.After(400 * time.Millisecond):
		return nil, nil, "var[L1]", "decoding does not terminate (still running after 400ms, allocating)"
	}
}

func vrRunPkt(c vrPktCase) (clause, detail string) {
	cp, _ := initCollectingProcess(CollectorInput{Address: "127.0.0.1:0", Protocol: "tcp", DecodingMode: DecodingMode(c.Mode)}, realClock{})
	go func() {
		for range cp.messageChan {
		}
	}()
	_, err, cl, d := vrDecode(cp, vrHeader(2, vrTemplateBody(256, c.Fields), 1))
	if cl != "" {
		return cl, "template: " + d
	}
	if err != nil {
		return "", "" // template rejected: nothing to decode against
	}
	msg, err, cl, d := vrDecode(cp, vrHeader(256, c.Body, 1))
	if cl != "" {
		return cl, d
	}
	nrec, spans, ok := vrRefParse(c.Fields, c.Body)
	if !ok {
		if err == nil {
			return "post[exact]", fmt.Sprintf("body is not a whole number of full-width records but decoding succeeded with %d records", msg.GetSet().GetNumberOfRecords())
		}
		return "", ""
	}
	if err != nil {
		if len(c.Body) == 0 || nrec > 0 {
			return "", "" // rejecting is allowed by the statement (error or message)
		}
		return "", ""
	}
	recs := msg.GetSet().GetRecords()
	if len(recs) != nrec {
		return "post[exact]", fmt.Sprintf("%d records delivered, the set body holds %d", len(recs), nrec)
	}
	for r, rec := range recs {
		k := 0
		for fi, f := range c.Fields {
			unknown := f.ID >= 40000
			if unknown && c.Mode == string(DecodingModeLenientDropUnknown) {
				continue
			}
			els := rec.GetOrderedElementList()
			if k >= len(els) {
				return "post[exact]", "missing field"
			}
			e := els[k]
			k++
			sp := spans[r][fi]
			want := c.Body[sp[0]:sp[1]]
			var got []byte
			switch e.GetDataType() {
			case entities.OctetArray:
				got = e.GetOctetArrayValue()
			case entities.String:
				got = []byte(e.GetStringValue())
			case entities.Unsigned8:
				got = []byte{e.GetUnsigned8Value()}
			case entities.Unsigned16:
				got = binary.BigEndian.AppendUint16(nil, e.GetUnsigned16Value())
			case entities.Unsigned32:
				got = binary.BigEndian.AppendUint32(nil, e.GetUnsigned32Value())
			case entities.Unsigned64:
				got = binary.BigEndian.AppendUint64(nil, e.GetUnsigned64Value())
			case entities.Ipv4Address, entities.Ipv6Address:
				got = e.GetIPAddressValue()
			case entities.MacAddress:
				got = e.GetMacAddressValue()
			default:
				continue
			}
			if !bytes.Equal(got, want) {
				return "post[exact]", fmt.Sprintf("record %d field %d: delivered %v, wire has %v", r, fi, got, want)
			}
		}
	}
	return "", ""
}

func TestVerifReplayPacket(t *testing.T) {
	// registry elements: 8 sourceIPv4Address(4), 7 sourceTransportPort(2), 1 octetDeltaCount(8), 56 sourceMacAddress(6),
	// 82 interfaceName (string), 4 protocolIdentifier(1); unknown: 40001 / enterprise 12345
	tpls := map[string][]vrField{
		"fixed":    {{8, 4, 0}, {7, 2, 0}, {1, 8, 0}},
		"mac":      {{56, 6, 0}, {4, 1, 0}},
		"string":   {{4, 1, 0}, {82, 65535, 0}},
		"unknown":  {{4, 1, 0}, {40001, 3, 0}, {40002, 65535, 12345}, {7, 2, 0}},
		"zerolen":  {{40001, 0, 0}},
		"nofields": {},
	}
	pat := func(n int) []byte {
		b := make([]byte, n)
		for i := range b {
			b[i] = byte(i*3 + 1)
		}
		return b
	}
	var cases []vrPktCase
	for _, mode := range []string{string(DecodingModeStrict), string(DecodingModeLenientKeepUnknown), string(DecodingModeLenientDropUnknown)} {
		for name, fs := range tpls {
			for _, n := range []int{0, 1, 2, 3, 5, 7, 13, 14, 15, 27, 28, 29, 40} {
				cases = append(cases, vrPktCase{name + fmt.Sprint("/len", n), mode, fs, pat(n)})
			}
		}
		// variable-length prefixes: short, 254, 255 (3-byte prefix), truncated prefix, length beyond the body
		s := tpls["string"]
		cases = append(cases,
			vrPktCase{"string/exact", mode, s, append([]byte{9, 3}, 'a', 'b', 'c')},
			vrPktCase{"string/two", mode, s, []byte{9, 1, 'x', 8, 0}},
			vrPktCase{"string/beyond", mode, s, []byte{9, 5, 'a', 'b'}},
			vrPktCase{"string/long-prefix-cut", mode, s, []byte{9, 255, 1}},
			vrPktCase{"string/long", mode, s, append([]byte{9, 255, 1, 0}, pat(256)...)},
			vrPktCase{"string/pad-is-not-a-record", mode, s, []byte{9, 1, 'x', 0}},
		)
	}
	res := vrPktRes{}
	for _, c := range cases {
		res.Tried++
		if cl, d := vrRunPkt(c); cl != "" {
			res.Reproduced, res.Clause, res.Detail, res.Input = true, cl, d, c
			break
		}
	}
	data, _ := json.MarshalIndent(res, "", " ")
	if p := os.Getenv("VERIF_REPLAY_OUT"); p != "" {
		os.WriteFile(p, data, 0o644)
	}
	fmt.Println(string(data))
	if res.Clause == "var[L1]" {
		os.Exit(0) // a decoding goroutine is still spinning and allocating: leave now
	}
}
