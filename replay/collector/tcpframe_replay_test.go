package collector

// Replay / directed-search driver for TCP framing (C11): in-package, injected with go test -overlay.
// A byte stream made of valid IPFIX messages (and one invalid message at a chosen position) is written to the
// real handleTCPClient over a loopback TCP connection in every single-cut and a sample of double-cut segmentations; the
// messages delivered on the collector's channel must be exactly the valid prefix, in order.

import (
	"encoding/binary"
	"encoding/json"
	"fmt"
	"net"
	"os"
	"testing"
	"time"

	"github.com/vmware/go-ipfix/pkg/entities"
	"github.com/vmware/go-ipfix/pkg/registry"
)

type vfRes struct {
	Reproduced bool        `json:"reproduced"`
	Clause     string      `json:"clause,omitempty"`
	Detail     string      `json:"detail,omitempty"`
	Input      interface{} `json:"input,omitempty"`
	Tried      int         `json:"tried"`
}

func vfMsg(setID uint16, body []byte, dom, seq uint32) []byte {
	b := make([]byte, 20+len(body))
	binary.BigEndian.PutUint16(b[0:], 10)
	binary.BigEndian.PutUint16(b[2:], uint16(len(b)))
	binary.BigEndian.PutUint32(b[8:], seq)
	binary.BigEndian.PutUint32(b[12:], dom)
	binary.BigEndian.PutUint16(b[16:], setID)
	binary.BigEndian.PutUint16(b[18:], uint16(4+len(body)))
	copy(b[20:], body)
	return b
}

// template 256: sourceIPv4Address(8,4) destinationTransportPort(11,2)
func vfTemplate(seq uint32) []byte {
	body := []byte{1, 0, 0, 2, 0, 8, 0, 4, 0, 11, 0, 2}
	return vfMsg(2, body, 7, seq)
}

func vfData(seq uint32, nrec int) []byte {
	var body []byte
	for i := 0; i < nrec; i++ {
		body = append(body, 10, 0, byte(seq), byte(i), 0x1f, byte(0x90+i))
	}
	return vfMsg(256, body, 7, seq)
}

type vfCase struct {
	Msgs    int   `json:"messages"`
	BadAt   int   `json:"invalid_message_at"` // -1: none
	BadKind int   `json:"invalid_kind"`       // 0: wrong version, 1: unknown template, 2: message length field below the header size
	Cuts    []int `json:"cut_points"`
}

func vfStream(c vfCase) (stream []byte, valid int, seqs []uint32) {
	valid = c.Msgs
	for i := 0; i < c.Msgs; i++ {
		var m []byte
		if i == 0 {
			m = vfTemplate(uint32(i))
		} else {
			m = vfData(uint32(i), 1+i%3)
		}
		if i == c.BadAt {
			switch c.BadKind {
			case 0:
				m[1] = 9
			case 1:
				binary.BigEndian.PutUint16(m[16:], 999)
			case 2:
				binary.BigEndian.PutUint16(m[2:], 12)
			}
			if valid > i {
				valid = i
			}
		}
		stream = append(stream, m...)
		seqs = append(seqs, uint32(i))
	}
	return
}

func vfRun(c vfCase) (clause, detail string) {
	registry.LoadRegistry()
	cp, err := InitCollectingProcess(CollectorInput{Address: "127.0.0.1:0", Protocol: "tcp", MaxBufferSize: 65535, TemplateTTL: 0, IsEncrypted: false})
	if err != nil {
		return "", ""
	}
	stream, valid, seqs := vfStream(c)
	ln, err := net.Listen("tcp", "127.0.0.1:0")
	if err != nil {
		return "", ""
	}
	defer ln.Close()
	client, err := net.Dial("tcp", ln.Addr().String())
	if err != nil {
		return "", ""
	}
	server, err := ln.Accept()
	if err != nil {
		return "", ""
	}
	if tc, ok := client.(*net.TCPConn); ok {
		tc.SetNoDelay(true)
	}
	done := make(chan struct{})
	go func() {
		cp.handleTCPClient(server)
		close(done)
	}()
	var got []*entities.Message
	collected := make(chan struct{})
	go func() {
		defer close(collected)
		for {
			select {
			case m := <-cp.messageChan:
				got = append(got, m)
			case <-done:
				return
			case <-time.After(3 * time.Second):
				return
			}
		}
	}()
	// write the segments
	prev := 0
	cuts := append(append([]int{}, c.Cuts...), len(stream))
	werr := error(nil)
	for _, cut := range cuts {
		if cut <= prev || cut > len(stream) {
			continue
		}
		client.SetWriteDeadline(time.Now().Add(2 * time.Second))
		if _, werr = client.Write(stream[prev:cut]); werr != nil {
			break
		}
		prev = cut
		time.Sleep(300 * time.Microsecond)
	}
	client.Close()
	select {
	case <-done:
	case <-time.After(5 * time.Second):
		return "post[once]", "handleTCPClient did not return after the stream ended"
	}
	<-collected
	if len(got) != valid {
		return "inv[L1.frame.iter]", fmt.Sprintf("%d messages delivered, the stream holds %d valid messages before the first invalid one (cuts %v)", len(got), valid, c.Cuts)
	}
	for i, m := range got {
		if m.GetSequenceNum() != seqs[i] || m.GetObsDomainID() != 7 {
			return "callpre[CollectingProcess.decodePacket.whole]", fmt.Sprintf("delivered message %d has sequence number %d, want %d (cuts %v)", i, m.GetSequenceNum(), seqs[i], c.Cuts)
		}
		wantRecs := 1
		if i > 0 {
			wantRecs = 1 + i%3
		}
		if int(m.GetSet().GetNumberOfRecords()) != wantRecs {
			return "callpre[CollectingProcess.decodePacket.whole]", fmt.Sprintf("delivered message %d has %d records, want %d (cuts %v)", i, m.GetSet().GetNumberOfRecords(), wantRecs, c.Cuts)
		}
	}
	return "", ""
}

func TestVerifReplayTCPFrame(t *testing.T) {
	res := vfRes{}
	var cases []vfCase
	total := len(func() []byte { s, _, _ := vfStream(vfCase{Msgs: 4, BadAt: -1}); return s }())
	for cut := 1; cut < total; cut++ {
		cases = append(cases, vfCase{Msgs: 4, BadAt: -1, Cuts: []int{cut}})
	}
	for a := 1; a < total; a += 7 {
		for b := a + 1; b < total; b += 11 {
			cases = append(cases, vfCase{Msgs: 4, BadAt: -1, Cuts: []int{a, b}})
		}
	}
	for bad := 0; bad < 4; bad++ {
		for kind := 0; kind < 3; kind++ {
			if bad == 0 && kind == 1 {
				continue
			}
			cases = append(cases, vfCase{Msgs: 4, BadAt: bad, BadKind: kind, Cuts: nil}, vfCase{Msgs: 4, BadAt: bad, BadKind: kind, Cuts: []int{3, 21, 40}})
		}
	}
	for _, c := range cases {
		res.Tried++
		if cl, d := vfRun(c); cl != "" {
			res.Reproduced, res.Clause, res.Detail, res.Input = true, cl, d, c
			break
		}
	}
	data, _ := json.MarshalIndent(res, "", " ")
	if p := os.Getenv("VERIF_REPLAY_OUT"); p != "" {
		os.WriteFile(p, data, 0o644)
	}
	fmt.Println(string(data))
}
