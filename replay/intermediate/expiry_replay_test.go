package intermediate

// Replay / directed-search driver for the expiry queue (C06, C07): in-package, injected with
// go test -overlay together with a copy of aggregate.go in which time.Now() is replaced by verifNow().

import (
	"encoding/json"
	"fmt"
	"os"
	"testing"
	"time"

	"github.com/vmware/go-ipfix/pkg/entities"
)

var vrClock = time.Unix(1_700_000_000, 0)

func verifNow() time.Time { return vrClock }

type vrStep struct {
	Op      string `json:"op"` // add k | advance ms | scan (fail key f, -1 none)
	Key     int    `json:"key,omitempty"`
	Ms      int    `json:"ms,omitempty"`
	FailKey int    `json:"fail_key,omitempty"`
	Ready   bool   `json:"ready,omitempty"`
}

type vrExpRes struct {
	Reproduced bool        `json:"reproduced"`
	Clause     string      `json:"clause,omitempty"`
	Detail     string      `json:"detail,omitempty"`
	Input      interface{} `json:"input,omitempty"`
	Tried      int         `json:"tried"`
}

func vrKey(k int) *FlowKey {
	return &FlowKey{SourceAddress: fmt.Sprintf("10.0.0.%d", k), DestinationAddress: "10.0.1.1", Protocol: 6, SourcePort: uint16(1000 + k), DestinationPort: 80}
}

// vrInv evaluates aggInv (I1, I2, index consistency, minimum at the root) concretely.
func vrInv(a *AggregationProcess) string {
	pq := a.expirePriorityQueue
	for i, it := range pq {
		if it == nil || it.index != i {
			return fmt.Sprintf("queue position %d: index field %v", i, it)
		}
		r, ok := a.flowKeyRecordMap[*it.flowKey]
		if !ok || r != it.flowRecord || r.PriorityQueueItem != it {
			return fmt.Sprintf("scheduled entry %d refers to a flow that is not held (I1)", i)
		}
		if pq.minExpireTime(0).After(pq.minExpireTime(i)) {
			return "minimum is not at the root"
		}
	}
	for k, r := range a.flowKeyRecordMap {
		it := r.PriorityQueueItem
		if it == nil || it.index < 0 || it.index >= len(pq) || pq[it.index] != it {
			return fmt.Sprintf("held flow %v is not scheduled: it can never expire or be exported again (I2)", k)
		}
	}
	return ""
}

func vrRunExpiry(steps []vrStep) (clause, detail string) {
	defer func() {
		if r := recover(); r != nil {
			clause, detail = "safe", fmt.Sprint("panic: ", r)
		}
	}()
	vrClock = time.Unix(1_700_000_000, 0)
	a := &AggregationProcess{flowKeyRecordMap: make(map[FlowKey]*AggregationFlowRecord), expirePriorityQueue: make(TimeToExpirePriorityQueue, 0),
		activeExpiryTimeout: 2 * time.Second, inactiveExpiryTimeout: 1 * time.Second}
	for n, s := range steps {
		// deadlines and readiness of every held flow before the step
		before := map[FlowKey][2]time.Time{}
		ready := map[FlowKey]bool{}
		for k, r := range a.flowKeyRecordMap {
			before[k] = [2]time.Time{r.PriorityQueueItem.activeExpireTime, r.PriorityQueueItem.inactiveExpireTime}
			ready[k] = r.ReadyToSend
		}
		switch s.Op {
		case "add":
			rec := entities.NewDataRecord(256, 0, 0, true)
			if err := a.addOrUpdateRecordInMap(vrKey(s.Key), rec, true); err != nil {
				return "", ""
			}
			if s.Ready {
				a.flowKeyRecordMap[*vrKey(s.Key)].ReadyToSend = true
			}
			_, had := before[*vrKey(s.Key)]
			it := a.flowKeyRecordMap[*vrKey(s.Key)].PriorityQueueItem
			if it == nil {
				return "post[inv]", "new flow without a queue item"
			}
			if !it.inactiveExpireTime.Equal(vrClock.Add(a.inactiveExpiryTimeout)) {
				return "post[upddl]", fmt.Sprintf("after step %d: inactive deadline %v, want now+%v", n, it.inactiveExpireTime.Sub(vrClock), a.inactiveExpiryTimeout)
			}
			if !had && !it.activeExpireTime.Equal(vrClock.Add(a.activeExpiryTimeout)) {
				return "post[newdl]", fmt.Sprintf("after step %d: active deadline of a new flow %v, want now+%v", n, it.activeExpireTime.Sub(vrClock), a.activeExpiryTimeout)
			}
			if had && !it.activeExpireTime.Equal(before[*vrKey(s.Key)][0]) {
				return "post[upddl]", fmt.Sprintf("after step %d: active deadline moved by an update", n)
			}
		case "advance":
			vrClock = vrClock.Add(time.Duration(s.Ms) * time.Millisecond)
		case "scan":
			called := map[FlowKey]int{}
			err := a.ForAllExpiredFlowRecordsDo(func(k FlowKey, r *AggregationFlowRecord) error {
				called[k]++
				if called[k] > 50 {
					panic("the scan hands the same flow to the callback over and over (no progress)")
				}
				if !r.ReadyToSend {
					clause, detail = "callpre[only_due]", "callback invoked on a flow that is not ready to send"
				}
				if b := before[k]; b[0].After(vrClock) && b[1].After(vrClock) {
					clause, detail = "callpre[only_due]", fmt.Sprintf("callback invoked on flow %v whose deadlines are both in the future", k)
				}
				for _, it := range a.expirePriorityQueue {
					if a.expirePriorityQueue.minExpireTime(it.index).Before(minT(before[k][0], before[k][1])) {
						clause, detail = "callpre[earliest]", "a flow with an earlier deadline is still queued"
					}
				}
				if a.flowKeyRecordMap[k] != r {
					clause, detail = "callpre[held]", "callback invoked on a flow that is not held"
				}
				if s.FailKey >= 0 && k == *vrKey(s.FailKey) {
					return fmt.Errorf("export failed")
				}
				return nil
			})
			if clause != "" {
				return
			}
			for k, b := range before {
				_, has := a.flowKeyRecordMap[k]
				if ready[k] && b[1].After(vrClock) && !has {
					return "post[kept]", fmt.Sprintf("after step %d: flow %v removed before its inactive deadline", n, k)
				}
				if err == nil && ready[k] && !b[1].After(vrClock) && has {
					return "post[alldue]", fmt.Sprintf("after step %d: flow %v past its inactive deadline is still held", n, k)
				}
				if err == nil && has && ready[k] && !b[0].After(vrClock) && !a.flowKeyRecordMap[k].PriorityQueueItem.activeExpireTime.Equal(vrClock.Add(a.activeExpiryTimeout)) {
					return "post[rearm]", fmt.Sprintf("after step %d: active deadline of exported flow %v not re-armed", n, k)
				}
			}
			for k := range a.flowKeyRecordMap {
				if _, ok := before[k]; !ok {
					return "post[nonew]", "scan added a flow"
				}
			}
			if err == nil {
				for _, it := range a.expirePriorityQueue {
					if !a.expirePriorityQueue.minExpireTime(it.index).After(vrClock) {
						return "post[alldue]", fmt.Sprintf("after step %d: a successful scan left flow %v scheduled at or before now", n, *it.flowKey)
					}
				}
			}
		}
		for k, r := range a.flowKeyRecordMap {
			if r.waitForReadyToSendRetries > MaxRetries {
				return "post[inv]", fmt.Sprintf("after step %d: flow %v held after %d retries (max %d)", n, k, r.waitForReadyToSendRetries, MaxRetries)
			}
		}
		if len(a.expirePriorityQueue) > 0 {
			min := a.expirePriorityQueue.minExpireTime(0)
			for i := range a.expirePriorityQueue {
				if a.expirePriorityQueue.minExpireTime(i).Before(min) {
					min = a.expirePriorityQueue.minExpireTime(i)
				}
			}
			want := MinExpiryTime + min.Sub(vrClock)
			if want < 0 {
				want = MinExpiryTime
			}
			if got := a.GetExpiryFromExpirePriorityQueue(); got != want {
				return "post[adv]", fmt.Sprintf("after step %d: advertised time to next expiry %v, earliest deadline gives %v", n, got, want)
			}
		}
		if d := vrInv(a); d != "" {
			return "post[inv]", fmt.Sprintf("after step %d (%s): %s", n, s.Op, d)
		}
	}
	return "", ""
}

func minT(a, b time.Time) time.Time {
	if a.Before(b) {
		return a
	}
	return b
}

func TestVerifReplayExpiry(t *testing.T) {
	var cases [][]vrStep
	for _, adv := range []int{500, 999, 1000, 1001, 1999, 2000, 2001, 3000} {
		for _, fail := range []int{-1, 1} {
			cases = append(cases,
				[]vrStep{{Op: "add", Key: 1, Ready: true}, {Op: "advance", Ms: adv}, {Op: "scan", FailKey: fail}, {Op: "advance", Ms: 5000}, {Op: "scan", FailKey: -1}},
				[]vrStep{{Op: "add", Key: 1, Ready: true}, {Op: "add", Key: 2, Ready: true}, {Op: "advance", Ms: adv}, {Op: "add", Key: 1, Ready: true}, {Op: "advance", Ms: adv}, {Op: "scan", FailKey: fail}},
				[]vrStep{{Op: "add", Key: 1}, {Op: "advance", Ms: adv}, {Op: "scan", FailKey: fail}, {Op: "advance", Ms: adv}, {Op: "scan", FailKey: fail}, {Op: "advance", Ms: adv}, {Op: "scan", FailKey: fail}, {Op: "advance", Ms: adv}, {Op: "scan", FailKey: fail}},
			)
		}
	}
	res := vrExpRes{}
	for _, c := range cases {
		res.Tried++
		if cl, d := vrRunExpiry(c); cl != "" {
			res.Reproduced, res.Clause, res.Detail, res.Input = true, cl, d, c
			break
		}
	}
	data, _ := json.MarshalIndent(res, "", " ")
	if p := os.Getenv("VERIF_REPLAY_OUT"); p != "" {
		os.WriteFile(p, data, 0o644)
	}
	fmt.Println(string(data))
}
