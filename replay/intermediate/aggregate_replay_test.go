package intermediate

// Replay / directed-search driver for the aggregation arithmetic (C05) and the correlation merge (C07): in-package,
// injected with go test -overlay. Streams of records for one 5-tuple (intra-node: one reporting stream; inter-node:
// source-node and destination-node streams) are fed to the real AggregateMsgByFlowKey; after every record the
// aggregated record is compared, field by field, with a reference written from the property statement: latest end time,
// latest totals, per-node delta sums since the last reset, common fields following the node with the latest end time,
// throughput = 8 x octet growth / end-time growth since that node's previous record; a reset clears delta and throughput
// fields only. A second 5-tuple checks isolation.

import (
	"encoding/json"
	"fmt"
	"net"
	"os"
	"testing"
	"time"

	"github.com/vmware/go-ipfix/pkg/entities"
	"github.com/vmware/go-ipfix/pkg/registry"
)

type vaRes struct {
	Reproduced bool        `json:"reproduced"`
	Clause     string      `json:"clause,omitempty"`
	Detail     string      `json:"detail,omitempty"`
	Input      interface{} `json:"input,omitempty"`
	Tried      int         `json:"tried"`
}

type vaStep struct {
	Op    string `json:"op"`   // rec | reset
	Node  string `json:"node"` // src | dst | intra
	Port  uint16 `json:"port"` // distinguishes 5-tuples
	Start uint32 `json:"start"`
	End   uint32 `json:"end"`
	Pkt   uint64 `json:"pkt_total"`
	PktD  uint64 `json:"pkt_delta"`
	Oct   uint64 `json:"oct_total"`
	RPkt  uint64 `json:"rpkt_total"`
	RPktD uint64 `json:"rpkt_delta"`
	ROct  uint64 `json:"roct_total"`
}

var vaStats = []string{"packetTotalCount", "packetDeltaCount", "octetTotalCount", "reversePacketTotalCount", "reversePacketDeltaCount", "reverseOctetTotalCount"}

func vaSuffix(list []string, s string) []string {
	out := make([]string, len(list))
	for i, n := range list {
		out[i] = n + s
	}
	return out
}

func vaElem(name string, ent uint32) *entities.InfoElement {
	ie, err := registry.GetInfoElement(name, ent)
	if err != nil {
		panic(err)
	}
	return ie
}

func vaRecord(s vaStep) entities.Record {
	rec := entities.NewDataRecord(256, 0, 0, true)
	add := func(e entities.InfoElementWithValue) { _ = rec.AddInfoElement(e) }
	add(entities.NewIPAddressInfoElement(vaElem("sourceIPv4Address", 0), net.IP{10, 0, 0, 1}))
	add(entities.NewIPAddressInfoElement(vaElem("destinationIPv4Address", 0), net.IP{10, 0, 0, 2}))
	add(entities.NewUnsigned16InfoElement(vaElem("sourceTransportPort", 0), s.Port))
	add(entities.NewUnsigned16InfoElement(vaElem("destinationTransportPort", 0), 80))
	add(entities.NewUnsigned8InfoElement(vaElem("protocolIdentifier", 0), 6))
	src, dst := "pod-a", "pod-b"
	ft := registry.FlowTypeIntraNode
	switch s.Node {
	case "src":
		dst, ft = "", registry.FlowTypeInterNode
	case "dst":
		src, ft = "", registry.FlowTypeInterNode
	}
	add(entities.NewStringInfoElement(vaElem("sourcePodName", registry.AntreaEnterpriseID), src))
	add(entities.NewStringInfoElement(vaElem("destinationPodName", registry.AntreaEnterpriseID), dst))
	add(entities.NewUnsigned8InfoElement(vaElem("flowType", registry.AntreaEnterpriseID), ft))
	add(entities.NewDateTimeSecondsInfoElement(vaElem("flowStartSeconds", 0), s.Start))
	add(entities.NewDateTimeSecondsInfoElement(vaElem("flowEndSeconds", 0), s.End))
	add(entities.NewUnsigned8InfoElement(vaElem("flowEndReason", 0), 2))
	add(entities.NewStringInfoElement(vaElem("tcpState", registry.AntreaEnterpriseID), "ESTABLISHED"))
	add(entities.NewStringInfoElement(vaElem("httpVals", registry.AntreaEnterpriseID), ""))
	vals := []uint64{s.Pkt, s.PktD, s.Oct, s.RPkt, s.RPktD, s.ROct}
	for i, n := range vaStats {
		ent := uint32(0)
		if i >= 3 {
			ent = registry.IANAReversedEnterpriseID
		}
		add(entities.NewUnsigned64InfoElement(vaElem(n, ent), vals[i]))
	}
	return rec
}

// reference state of one flow
type vaRef struct {
	seen     bool
	end      uint32
	nodeEnd  map[string]uint32
	node     map[string][]uint64 // per node: the six counters
	common   []uint64
	thr      map[string][2]uint64 // "", "src", "dst"
	lastSeen map[string]bool
}

func vaNodes(n string) []string {
	if n == "intra" {
		return []string{"src", "dst"}
	}
	return []string{n}
}

func (r *vaRef) apply(s vaStep) {
	vals := []uint64{s.Pkt, s.PktD, s.Oct, s.RPkt, s.RPktD, s.ROct}
	isDelta := []bool{false, true, false, false, true, false}
	if !r.seen {
		r.seen, r.end = true, s.End
		r.nodeEnd = map[string]uint32{}
		r.node = map[string][]uint64{"src": make([]uint64, 6), "dst": make([]uint64, 6)}
		r.common = append([]uint64{}, vals...)
		r.thr = map[string][2]uint64{}
		var t [2]uint64
		if s.End > s.Start {
			t = [2]uint64{s.Oct * 8 / uint64(s.End-s.Start), s.ROct * 8 / uint64(s.End-s.Start)}
		}
		r.thr[""] = t
		for _, n := range vaNodes(s.Node) {
			r.nodeEnd[n] = s.End
			copy(r.node[n], vals)
			r.thr[n] = t
		}
		return
	}
	latest := s.End >= r.end
	if latest {
		r.end = s.End
	}
	for _, n := range vaNodes(s.Node) {
		prev := r.nodeEnd[n]
		if prev == 0 {
			prev = s.Start
		}
		r.nodeEnd[n] = s.End
		if s.End <= prev {
			continue // the property's quantifier excludes non-increasing end times; the driver never generates them
		}
		growth := [2]uint64{vals[2] - r.node[n][2], vals[5] - r.node[n][5]}
		for i := range vals {
			if isDelta[i] {
				r.node[n][i] += vals[i]
			} else {
				r.node[n][i] = vals[i]
			}
			if latest {
				if isDelta[i] {
					r.common[i] = r.node[n][i]
				} else if r.common[i] < vals[i] {
					r.common[i] = vals[i]
				}
			}
		}
		t := [2]uint64{growth[0] * 8 / uint64(s.End-prev), growth[1] * 8 / uint64(s.End-prev)}
		r.thr[n] = t
		if latest {
			r.thr[""] = t
		}
	}
}

func (r *vaRef) reset() {
	for _, i := range []int{1, 4} {
		r.common[i], r.node["src"][i], r.node["dst"][i] = 0, 0, 0
	}
	r.thr[""], r.thr["src"], r.thr["dst"] = [2]uint64{}, [2]uint64{}, [2]uint64{}
}

func vaGet64(rec entities.Record, name string) (uint64, bool) {
	e, _, ok := rec.GetInfoElementWithValue(name)
	if !ok {
		return 0, false
	}
	return e.GetUnsigned64Value(), true
}

func vaCompare(rec entities.Record, r *vaRef) (string, string) {
	if e, _, ok := rec.GetInfoElementWithValue("flowEndSeconds"); !ok || e.GetUnsigned32Value() != r.end {
		return "post[endtime]", fmt.Sprintf("flowEndSeconds is not the latest end time %d", r.end)
	}
	for i, n := range vaStats {
		for _, nd := range []struct{ suffix, key, clause string }{{"FromSourceNode", "src", "inv[L2.srcdone.step]"}, {"FromDestinationNode", "dst", "inv[L2.dstdone.step]"}} {
			if v, ok := vaGet64(rec, n+nd.suffix); !ok || v != r.node[nd.key][i] {
				return nd.clause, fmt.Sprintf("%s is %d, the records of that node give %d", n+nd.suffix, v, r.node[nd.key][i])
			}
		}
		if v, ok := vaGet64(rec, n); !ok || v != r.common[i] {
			return "inv[L2.comdone.step]", fmt.Sprintf("common field %s is %d, following the node with the latest end time gives %d", n, v, r.common[i])
		}
	}
	for k, suf := range map[string]string{"": "", "src": "FromSourceNode", "dst": "FromDestinationNode"} {
		for d, base := range []string{"throughput", "reverseThroughput"} {
			if v, ok := vaGet64(rec, base+suf); !ok || v != r.thr[k][d] {
				return "inv[L2.fwd.step]", fmt.Sprintf("%s is %d, 8 x octet growth / end-time growth gives %d", base+suf, v, r.thr[k][d])
			}
		}
	}
	return "", ""
}

func vaRun(steps []vaStep) (string, string) {
	registry.LoadRegistry()
	in := AggregationInput{MessageChan: make(chan *entities.Message), WorkerNum: 1, CorrelateFields: []string{"sourcePodName", "destinationPodName"},
		AggregateElements: &AggregationElements{NonStatsElements: []string{"flowEndSeconds", "flowEndReason", "tcpState", "httpVals"}, StatsElements: vaStats,
			AggregatedSourceStatsElements: vaSuffix(vaStats, "FromSourceNode"), AggregatedDestinationStatsElements: vaSuffix(vaStats, "FromDestinationNode"),
			AntreaFlowEndSecondsElements: []string{"flowEndSecondsFromSourceNode", "flowEndSecondsFromDestinationNode"},
			ThroughputElements:           []string{"throughput", "reverseThroughput"}, SourceThroughputElements: []string{"throughputFromSourceNode", "reverseThroughputFromSourceNode"},
			DestinationThroughputElements: []string{"throughputFromDestinationNode", "reverseThroughputFromDestinationNode"}},
		ActiveExpiryTimeout: time.Hour, InactiveExpiryTimeout: time.Hour}
	ap, err := InitAggregationProcess(in)
	if err != nil {
		return "", ""
	}
	refs := map[uint16]*vaRef{}
	for n, s := range steps {
		if refs[s.Port] == nil {
			refs[s.Port] = &vaRef{}
		}
		key := FlowKey{SourceAddress: "10.0.0.1", DestinationAddress: "10.0.0.2", Protocol: 6, SourcePort: s.Port, DestinationPort: 80}
		switch s.Op {
		case "rec":
			set := entities.NewSet(true)
			_ = set.PrepareSet(entities.Data, 256)
			rec := vaRecord(s)
			if err := set.AddRecordV2(rec.GetOrderedElementList(), 256); err != nil {
				return "", ""
			}
			msg := entities.NewMessage(true)
			msg.AddSet(set)
			if err := ap.AggregateMsgByFlowKey(msg); err != nil {
				return "safe", fmt.Sprintf("step %d: %v", n, err)
			}
			refs[s.Port].apply(s)
		case "reset":
			held := ap.flowKeyRecordMap[key]
			if held == nil {
				continue
			}
			if err := ap.ResetStatAndThroughputElementsInRecord(held.Record); err != nil {
				return "post[ok]", fmt.Sprintf("step %d: reset failed: %v", n, err)
			}
			refs[s.Port].reset()
		}
		if len(ap.flowKeyRecordMap) != len(refs) {
			return "post[others]", fmt.Sprintf("after step %d: %d flow records held for %d distinct 5-tuples", n, len(ap.flowKeyRecordMap), len(refs))
		}
		for port, r := range refs {
			k := key
			k.SourcePort = port
			held := ap.flowKeyRecordMap[k]
			if held == nil {
				return "post[held]", fmt.Sprintf("after step %d: no record held for port %d", n, port)
			}
			if cl, d := vaCompare(held.Record, r); cl != "" {
				if s.Op == "reset" {
					cl = "inv[L2.cur.step]"
				}
				return cl, fmt.Sprintf("after step %d (%s %s port %d) flow of port %d: %s", n, s.Op, s.Node, s.Port, port, d)
			}
		}
	}
	return "", ""
}

func TestVerifReplayAggregate(t *testing.T) {
	res := vaRes{}
	r := func(node string, port uint16, start, end uint32, pkt, pktd, oct, rpkt, rpktd, roct uint64) vaStep {
		return vaStep{"rec", node, port, start, end, pkt, pktd, oct, rpkt, rpktd, roct}
	}
	cases := [][]vaStep{
		// one reporting stream, reverse deltas non-zero from the start, asymmetric forward / reverse octets
		{r("intra", 1000, 100, 110, 10, 10, 1000, 5, 3, 300), r("intra", 1000, 100, 120, 25, 15, 2600, 9, 4, 700), r("intra", 1000, 100, 135, 26, 1, 2800, 10, 1, 900)},
		// two reporting nodes, the destination node lags behind the source node
		{r("src", 1000, 100, 110, 10, 10, 1000, 4, 4, 400), r("dst", 1000, 100, 112, 8, 8, 800, 3, 3, 320), r("src", 1000, 100, 130, 17, 7, 1900, 8, 4, 900), r("dst", 1000, 100, 120, 20, 12, 2400, 11, 8, 640),
			r("src", 1000, 100, 150, 30, 13, 3500, 12, 4, 1300), r("dst", 1000, 100, 160, 33, 13, 4100, 13, 2, 1500)},
		// reset between records, and a second 5-tuple in between
		{r("intra", 1000, 100, 110, 7, 7, 700, 9, 9, 450), r("intra", 2000, 100, 111, 3, 3, 90, 1, 1, 30), r("intra", 1000, 100, 120, 11, 4, 1500, 15, 6, 800), {Op: "reset", Port: 1000},
			r("intra", 1000, 100, 130, 12, 1, 1600, 19, 4, 1000), r("intra", 2000, 100, 140, 9, 6, 290, 2, 1, 60), {Op: "reset", Port: 2000}, r("intra", 2000, 100, 150, 10, 1, 300, 4, 2, 160)},
		{r("src", 1000, 100, 110, 10, 10, 1000, 4, 4, 400), r("dst", 1000, 100, 112, 8, 8, 800, 3, 3, 320), {Op: "reset", Port: 1000}, r("dst", 1000, 100, 125, 20, 12, 2400, 11, 8, 640), r("src", 1000, 100, 140, 17, 7, 1900, 8, 4, 900)},
	}
	for _, c := range cases {
		res.Tried++
		cl, d := func() (cl, d string) {
			defer func() {
				if p := recover(); p != nil {
					cl, d = "safe", fmt.Sprint("panic: ", p)
				}
			}()
			return vaRun(c)
		}()
		if cl != "" {
			res.Reproduced, res.Clause, res.Detail, res.Input = true, cl, d, c
			break
		}
	}
	data, _ := json.MarshalIndent(res, "", " ")
	if p := os.Getenv("VERIF_REPLAY_OUT"); p != "" {
		os.WriteFile(p, data, 0o644)
	}
	fmt.Println(string(data))
}
