package entities

// Replay / directed-search driver for the codec units (injected with go test -overlay;
// never written to /repo). Executable copy of the contract vocabulary: wireLen,
// encodable, wireByte, decVal - written from RFC 7011, independent of the library.

import (
	"encoding/json"
	"fmt"
	"math"
	"net"
	"os"
	"testing"
)

type vrCodecCase struct {
	DType  int    `json:"dtype"`
	IELen  int    `json:"ielen"`
	VLen   int    `json:"vlen"`   // length of slice/string value (-1: nil)
	Num    uint64 `json:"num"`    // numeric value bits
	Index  int    `json:"index"`
	BufLen int    `json:"buflen"`
	ValNil bool   `json:"valnil"` // decode: value slice is nil
}

type vrResult struct {
	Reproduced bool        `json:"reproduced"`
	Clause     string      `json:"clause,omitempty"`
	Detail     string      `json:"detail,omitempty"`
	Input      interface{} `json:"input,omitempty"`
	Tried      int         `json:"tried"`
}

func vrPattern(n int, seed byte) []byte {
	b := make([]byte, n)
	for i := range b {
		b[i] = byte(i)*7 + seed
	}
	return b
}

func vrFixedWidth(d IEDataType) int {
	switch d {
	case Unsigned8, Signed8, Boolean:
		return 1
	case Unsigned16, Signed16:
		return 2
	case Unsigned32, Signed32, Float32, DateTimeSeconds, Ipv4Address:
		return 4
	case Unsigned64, Signed64, Float64, DateTimeMilliseconds:
		return 8
	case MacAddress:
		return 6
	case Ipv6Address:
		return 16
	}
	return 65535
}

func vrBuild(c vrCodecCase) (InfoElementWithValue, bool) {
	d := IEDataType(c.DType)
	ie := NewInfoElement("x", 1, d, 0, uint16(c.IELen))
	var val []byte
	if c.VLen >= 0 {
		val = vrPattern(c.VLen, 3)
	}
	switch d {
	case OctetArray:
		return NewOctetArrayInfoElement(ie, val), true
	case Unsigned8:
		return NewUnsigned8InfoElement(ie, uint8(c.Num)), true
	case Unsigned16:
		return NewUnsigned16InfoElement(ie, uint16(c.Num)), true
	case Unsigned32:
		return NewUnsigned32InfoElement(ie, uint32(c.Num)), true
	case Unsigned64:
		return NewUnsigned64InfoElement(ie, c.Num), true
	case Signed8:
		return NewSigned8InfoElement(ie, int8(c.Num)), true
	case Signed16:
		return NewSigned16InfoElement(ie, int16(c.Num)), true
	case Signed32:
		return NewSigned32InfoElement(ie, int32(c.Num)), true
	case Signed64:
		return NewSigned64InfoElement(ie, int64(c.Num)), true
	case Float32:
		return NewFloat32InfoElement(ie, math.Float32frombits(uint32(c.Num))), true
	case Float64:
		return NewFloat64InfoElement(ie, math.Float64frombits(c.Num)), true
	case Boolean:
		return NewBoolInfoElement(ie, c.Num%2 == 1), true
	case MacAddress:
		return NewMacAddressInfoElement(ie, net.HardwareAddr(val)), true
	case String:
		return NewStringInfoElement(ie, string(val)), true
	case DateTimeSeconds:
		return NewDateTimeSecondsInfoElement(ie, uint32(c.Num)), true
	case DateTimeMilliseconds:
		return NewDateTimeMillisecondsInfoElement(ie, c.Num), true
	case Ipv4Address, Ipv6Address:
		return NewIPAddressInfoElement(ie, net.IP(val)), true
	}
	return nil, false
}

func vrBE(v uint64, n int) []byte {
	b := make([]byte, n)
	for i := n - 1; i >= 0; i-- {
		b[i] = byte(v)
		v >>= 8
	}
	return b
}

func vrPrefix(n int) []byte {
	if n < 255 {
		return []byte{byte(n)}
	}
	return []byte{255, byte(n >> 8), byte(n)}
}

func vrIsV4Mapped(b []byte) bool {
	for i := 0; i < 10; i++ {
		if b[i] != 0 {
			return false
		}
	}
	return b[10] == 255 && b[11] == 255
}

// vrWire: RFC 7011 encoding of the case's value; ok=false when the value has none.
func vrWire(c vrCodecCase) (wire []byte, ok bool) {
	d := IEDataType(c.DType)
	var val []byte
	if c.VLen >= 0 {
		val = vrPattern(c.VLen, 3)
	}
	switch d {
	case Unsigned8, Signed8:
		return []byte{byte(c.Num)}, true
	case Boolean:
		if c.Num%2 == 1 {
			return []byte{1}, true
		}
		return []byte{2}, true
	case Unsigned16, Signed16:
		return vrBE(c.Num&0xffff, 2), true
	case Unsigned32, Signed32, Float32, DateTimeSeconds:
		return vrBE(c.Num&0xffffffff, 4), true
	case Unsigned64, Signed64, Float64, DateTimeMilliseconds:
		return vrBE(c.Num, 8), true
	case MacAddress:
		return val, len(val) == 6
	case Ipv4Address:
		if len(val) == 4 {
			return val, true
		}
		if len(val) == 16 && vrIsV4Mapped(val) {
			return val[12:], true
		}
		return nil, false
	case Ipv6Address:
		if len(val) == 16 {
			return val, true
		}
		if len(val) == 4 {
			return append([]byte{0, 0, 0, 0, 0, 0, 0, 0, 0, 0, 255, 255}, val...), true
		}
		return nil, false
	case String:
		if len(val) > 65535 {
			return nil, false
		}
		return append(vrPrefix(len(val)), val...), true
	case OctetArray:
		if c.IELen < 65535 {
			return val, len(val) == c.IELen
		}
		if len(val) > 65535 {
			return nil, false
		}
		return append(vrPrefix(len(val)), val...), true
	}
	return nil, false
}

// vrWireLen: the length the element must report (contract wireLen)
func vrWireLen(c vrCodecCase) int {
	d := IEDataType(c.DType)
	n := c.VLen
	if n < 0 {
		n = 0
	}
	if d == String || (d == OctetArray && c.IELen == 65535) {
		return len(vrPrefix(n)) + n
	}
	return c.IELen
}

func vrCheckEncode(c vrCodecCase) (clause, detail string) {
	defer func() {
		if r := recover(); r != nil {
			clause, detail = "safe", fmt.Sprintf("panic: %v", r)
		}
	}()
	e, ok := vrBuild(c)
	if !ok {
		return "", ""
	}
	if got := e.GetLength(); got != vrWireLen(c) {
		return "GetLength.len", fmt.Sprintf("GetLength()=%d, RFC length %d", got, vrWireLen(c))
	}
	buf := vrPattern(c.BufLen, 0x55)
	orig := append([]byte{}, buf...)
	err := encodeInfoElementValueToBuff(e, buf, c.Index)
	wl := vrWireLen(c)
	wire, encodable := vrWire(c)
	room := c.Index+wl <= len(buf)
	if !room && err == nil {
		return "post[room]", "no room but no error"
	}
	if !encodable && err == nil {
		return "post[err_if]", fmt.Sprintf("value has no encoding for its element (dtype %d, value length %d) but err == nil", c.DType, c.VLen)
	}
	if room && encodable && err != nil {
		return "post[ok_if]", "encodable value with room rejected: " + err.Error()
	}
	for k := range buf {
		if k < c.Index || k >= c.Index+wl {
			if buf[k] != orig[k] {
				return "post[frame]", fmt.Sprintf("byte %d outside [index, index+reported length) changed", k)
			}
		}
	}
	if err == nil && encodable {
		for k := 0; k < wl; k++ {
			if buf[c.Index+k] != wire[k] {
				return "post[bytes]", fmt.Sprintf("byte %d is %d, RFC encoding has %d", k, buf[c.Index+k], wire[k])
			}
		}
	}
	return "", ""
}

func vrCheckDecode(c vrCodecCase) (clause, detail string) {
	defer func() {
		if r := recover(); r != nil {
			clause, detail = "safe", fmt.Sprintf("panic: %v", r)
		}
	}()
	d := IEDataType(c.DType)
	ie := NewInfoElement("x", 1, d, 0, uint16(c.IELen))
	var value []byte
	if !c.ValNil {
		wire, ok := vrWire(c)
		if !ok {
			return "", ""
		}
		value = wire
		// variable-length kinds: the decoder receives the payload without prefix
		if d == String || (d == OctetArray && c.IELen == 65535) {
			n := c.VLen
			if n < 0 {
				n = 0
			}
			value = wire[len(vrPrefix(n)):]
		}
	}
	r, err := DecodeAndCreateInfoElementWithValue(ie, value)
	supported := (d <= DateTimeMilliseconds) || d == Ipv4Address || d == Ipv6Address
	if (err != nil) == supported {
		return "post[kinds]", fmt.Sprintf("err=%v for dtype %d", err, d)
	}
	if err != nil || c.ValNil {
		return "", ""
	}
	// round trip: re-encode the decoded element and compare with the wire bytes
	buf := make([]byte, r.GetLength())
	if e2 := encodeInfoElementValueToBuff(r, buf, 0); e2 != nil {
		return "roundtrip", "decoded element does not re-encode: " + e2.Error()
	}
	wire, _ := vrWire(c)
	if d == Ipv4Address || d == Ipv6Address || fmt.Sprint(buf) == fmt.Sprint(wire) {
		return "", ""
	}
	return "roundtrip", fmt.Sprintf("decode(encode(v)) re-encodes to %v, expected %v", buf, wire)
}

func vrCodecCandidates(seed *vrCodecCase) []vrCodecCase {
	var out []vrCodecCase
	if seed != nil {
		out = append(out, *seed)
	}
	lens := []int{-1, 0, 1, 3, 4, 6, 8, 12, 16, 254, 255, 256, 65535, 65536}
	nums := []uint64{0, 1, 2, 0x7f, 0x80, 0xff, 0x8000, 0xffff, 0x80000000, 0xffffffff, 0x8000000000000000, math.MaxUint64, 0x0102030405060708}
	for d := 0; d <= 19; d++ {
		w := vrFixedWidth(IEDataType(d))
		ielens := []int{w}
		if d == 0 {
			ielens = []int{0, 1, 7, 254, 255, 65534, 65535}
		}
		for _, il := range ielens {
			for _, vl := range lens {
				for ni, n := range nums {
					if ni > 0 && (d == 0 || d == 12 || d == 13 || d >= 18) {
						break
					}
					if vl != 0 && !(d == 0 || d == 12 || d == 13 || d >= 18) {
						continue
					}
					wl := vrWireLen(vrCodecCase{DType: d, IELen: il, VLen: vl})
					for _, ib := range [][2]int{{0, wl}, {3, wl + 3}, {0, wl + 5}, {2, wl + 1}, {0, 0}} {
						out = append(out, vrCodecCase{DType: d, IELen: il, VLen: vl, Num: n, Index: ib[0], BufLen: ib[1]})
					}
				}
			}
		}
	}
	return out
}

func TestVerifReplayCodec(t *testing.T) {
	mode := os.Getenv("VERIF_REPLAY_MODE") // encode | decode
	var seed *vrCodecCase
	if p := os.Getenv("VERIF_REPLAY_IN"); p != "" {
		if data, err := os.ReadFile(p); err == nil {
			var c vrCodecCase
			if json.Unmarshal(data, &c) == nil {
				seed = &c
			}
		}
	}
	res := vrResult{}
	for _, c := range vrCodecCandidates(seed) {
		if c.BufLen > 1<<20 || c.VLen > 1<<20 {
			continue
		}
		res.Tried++
		var clause, detail string
		if mode == "decode" {
			clause, detail = vrCheckDecode(c)
			if clause == "" {
				c2 := c
				c2.ValNil = true
				clause, detail = vrCheckDecode(c2)
				if clause != "" {
					c = c2
				}
			}
		} else {
			clause, detail = vrCheckEncode(c)
		}
		if clause != "" {
			res.Reproduced, res.Clause, res.Detail, res.Input = true, clause, detail, c
			break
		}
	}
	data, _ := json.MarshalIndent(res, "", " ")
	if p := os.Getenv("VERIF_REPLAY_OUT"); p != "" {
		os.WriteFile(p, data, 0o644)
	}
	fmt.Println(string(data))
}
