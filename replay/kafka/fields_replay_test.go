package test

// Replay / directed-search driver for the field mapping of the two shipped Kafka convertors (C19, clauses f_<Field> / maps):
// injected with go test -overlay into pkg/kafka/producer/convertor/test. It builds records that carry every mapped element
// name (some names twice, with different values: the last one wins), with boundary values (maximal 8/16/32/64-bit values,
// empty and long strings), runs the real addAllFieldsToFlowType1/2 and compares every mapped flow-message field with the
// value of the record's last element of the mapped name. The table below is generated from the switch in flowtype1.go
// (the same names and fields are used by flowtype2.go).

import (
	"encoding/json"
	"fmt"
	"os"
	"reflect"
	"strings"
	"testing"

	"github.com/vmware/go-ipfix/pkg/entities"
	"github.com/vmware/go-ipfix/pkg/kafka/producer/protobuf"
	"github.com/vmware/go-ipfix/pkg/registry"
)

type vfRes struct {
	Reproduced bool        `json:"reproduced"`
	Clause     string      `json:"clause,omitempty"`
	Detail     string      `json:"detail,omitempty"`
	Input      interface{} `json:"input,omitempty"`
	Tried      int         `json:"tried"`
}

var vfMap = []struct{ name, field, kind string }{
	{"flowStartSeconds", "TimeFlowStartInSecs", "u32"},
	{"flowEndSeconds", "TimeFlowEndInSecs", "u32"},
	{"sourceTransportPort", "SrcPort", "u16"},
	{"destinationTransportPort", "DstPort", "u16"},
	{"protocolIdentifier", "Proto", "u8"},
	{"packetTotalCount", "PacketsTotal", "u64"},
	{"octetTotalCount", "BytesTotal", "u64"},
	{"packetDeltaCount", "PacketsDelta", "u64"},
	{"octetDeltaCount", "BytesDelta", "u64"},
	{"reversePacketTotalCount", "ReversePacketsTotal", "u64"},
	{"reverseOctetTotalCount", "ReverseBytesTotal", "u64"},
	{"reversePacketDeltaCount", "ReversePacketsDelta", "u64"},
	{"reverseOctetDeltaCount", "ReverseBytesDelta", "u64"},
	{"sourcePodNamespace", "SrcPodNamespace", "str"},
	{"sourcePodName", "SrcPodName", "str"},
	{"sourceNodeName", "SrcNodeName", "str"},
	{"destinationPodNamespace", "DstPodNamespace", "str"},
	{"destinationPodName", "DstPodName", "str"},
	{"destinationNodeName", "DstNodeName", "str"},
	{"destinationServicePort", "DstServicePort", "u16"},
	{"destinationServicePortName", "DstServicePortName", "str"},
	{"ingressNetworkPolicyName", "IngressPolicyName", "str"},
	{"ingressNetworkPolicyNamespace", "IngressPolicyNamespace", "str"},
	{"egressNetworkPolicyName", "EgressPolicyName", "str"},
	{"egressNetworkPolicyNamespace", "EgressPolicyNamespace", "str"},
}

func vfLookup(name string) *entities.InfoElement {
	for _, ent := range []uint32{registry.IANAEnterpriseID, registry.AntreaEnterpriseID, registry.IANAReversedEnterpriseID} {
		if ie, err := registry.GetInfoElement(name, ent); err == nil {
			return ie
		}
	}
	return nil
}

// vfElem builds the element for a mapped name with value number v of its kind.
func vfElem(name, kind string, v int) (entities.InfoElementWithValue, interface{}) {
	ie := vfLookup(name)
	if ie == nil {
		return nil, nil
	}
	u64s := []uint64{0, 1, 7000000000000, 1<<64 - 1, 1 << 32}
	u32s := []uint32{0, 1, 1700000100, 1<<32 - 1, 65536}
	u16s := []uint16{0, 1, 443, 65535, 256}
	u8s := []uint8{0, 1, 6, 255, 17}
	strs := []string{"", "a", "pod-x", strings.Repeat("n", 300), "ns/y"}
	switch kind {
	case "u64":
		return entities.NewUnsigned64InfoElement(ie, u64s[v%5]), u64s[v%5]
	case "u32":
		if ie.DataType == entities.DateTimeSeconds {
			return entities.NewDateTimeSecondsInfoElement(ie, u32s[v%5]), u32s[v%5]
		}
		return entities.NewUnsigned32InfoElement(ie, u32s[v%5]), u32s[v%5]
	case "u16":
		return entities.NewUnsigned16InfoElement(ie, u16s[v%5]), uint32(u16s[v%5])
	case "u8":
		return entities.NewUnsigned8InfoElement(ie, u8s[v%5]), uint32(u8s[v%5])
	case "str":
		return entities.NewStringInfoElement(ie, strs[v%5]), strs[v%5]
	}
	return nil, nil
}

func vfRun(schema int, round int, dup bool) (string, string, interface{}) {
	var els []entities.InfoElementWithValue
	want := map[string]interface{}{}
	desc := []string{}
	add := func(i int, v int) {
		m := vfMap[i]
		e, val := vfElem(m.name, m.kind, v)
		if e == nil {
			return
		}
		els = append(els, e)
		want[m.field] = val
		desc = append(desc, fmt.Sprintf("%s=%v", m.name, val))
	}
	for i := range vfMap {
		add(i, round+i)
	}
	if dup {
		// a second element for every third name, with another value: the last element of a name wins
		for i := range vfMap {
			if i%3 == round%3 {
				add(i, round+i+2)
			}
		}
	}
	set := entities.NewSet(true)
	_ = set.PrepareSet(entities.Data, 256)
	_ = set.AddRecordV2(els, 256)
	rec := set.GetRecords()[0]
	var msg interface{}
	if schema == 1 {
		f := &protobuf.FlowType1{}
		addAllFieldsToFlowType1(f, rec)
		msg = f
	} else {
		f := &protobuf.FlowType2{}
		addAllFieldsToFlowType2(f, rec)
		msg = f
	}
	rv := reflect.ValueOf(msg).Elem()
	for _, m := range vfMap {
		w, ok := want[m.field]
		if !ok {
			continue
		}
		got := rv.FieldByName(m.field).Interface()
		if !reflect.DeepEqual(got, w) {
			return fmt.Sprintf("inv[L1.f_%s.step]", m.field), fmt.Sprintf("FlowType%d.%s = %v, but the record's last %s element holds %v", schema, m.field, got, m.name, w),
				map[string]interface{}{"schema": schema, "elements_in_order": desc}
		}
	}
	return "", "", nil
}

func TestVerifReplayKafkaFields(t *testing.T) {
	registry.LoadRegistry()
	res := vfRes{}
	for _, schema := range []int{1, 2} {
		for round := 0; round < 5; round++ {
			for _, dup := range []bool{false, true} {
				res.Tried++
				if cl, d, in := vfRun(schema, round, dup); cl != "" {
					res.Reproduced, res.Clause, res.Detail, res.Input = true, cl, d, in
					goto out
				}
			}
		}
	}
out:
	data, _ := json.MarshalIndent(res, "", " ")
	if p := os.Getenv("VERIF_REPLAY_OUT"); p != "" {
		os.WriteFile(p, data, 0o644)
	}
	fmt.Println(string(data))
}
