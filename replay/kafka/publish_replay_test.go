package test

// Replay / directed-search driver for Kafka publication (C19): injected with go test -overlay into
// pkg/kafka/producer/convertor/test (the package of the two shipped convertors). It publishes streams of template and
// data messages through the real PublishIPFIXMessages with a sarama mock producer and checks, per IPFIX message, the
// number, order, topic and framing of the Kafka messages, that each payload unmarshals with the matching proto schema
// to the message header fields and to a sample of record fields, and that the consumer-side stripping recovers the bytes.

import (
	"encoding/binary"
	"encoding/json"
	"fmt"
	"net"
	"os"
	"testing"
	"time"

	"github.com/IBM/sarama"
	saramamock "github.com/IBM/sarama/mocks"
	"google.golang.org/protobuf/proto"

	"github.com/vmware/go-ipfix/pkg/entities"
	"github.com/vmware/go-ipfix/pkg/kafka/producer"
	"github.com/vmware/go-ipfix/pkg/kafka/producer/protobuf"
	"github.com/vmware/go-ipfix/pkg/registry"
)

type vkRes struct {
	Reproduced bool        `json:"reproduced"`
	Clause     string      `json:"clause,omitempty"`
	Detail     string      `json:"detail,omitempty"`
	Input      interface{} `json:"input,omitempty"`
	Tried      int         `json:"tried"`
}

func vkElem(name string, ent uint32, val interface{}) entities.InfoElementWithValue {
	ie, err := registry.GetInfoElement(name, ent)
	if err != nil {
		panic(err)
	}
	switch v := val.(type) {
	case uint8:
		return entities.NewUnsigned8InfoElement(ie, v)
	case uint16:
		return entities.NewUnsigned16InfoElement(ie, v)
	case uint64:
		return entities.NewUnsigned64InfoElement(ie, v)
	case string:
		return entities.NewStringInfoElement(ie, v)
	case net.IP:
		return entities.NewIPAddressInfoElement(ie, v)
	}
	panic("unsupported value")
}

func vkMsg(seq uint32, nrec int, template bool, v6 bool) *entities.Message {
	set := entities.NewSet(true)
	if template {
		_ = set.PrepareSet(entities.Template, 256)
		ie, _ := registry.GetInfoElement("sourceTransportPort", registry.IANAEnterpriseID)
		_ = set.AddRecordV2([]entities.InfoElementWithValue{entities.NewUnsigned16InfoElement(ie, 0)}, 256)
	} else {
		_ = set.PrepareSet(entities.Data, 256)
		for r := 0; r < nrec; r++ {
			els := []entities.InfoElementWithValue{
				vkElem("sourceTransportPort", registry.IANAEnterpriseID, uint16(1000+r)),
				vkElem("destinationTransportPort", registry.IANAEnterpriseID, uint16(80)),
				vkElem("protocolIdentifier", registry.IANAEnterpriseID, uint8(6)),
				vkElem("packetTotalCount", registry.IANAEnterpriseID, uint64(seq)*100+uint64(r)),
				vkElem("sourcePodName", registry.AntreaEnterpriseID, fmt.Sprintf("pod-%d-%d", seq, r)),
			}
			if v6 {
				els = append(els, vkElem("sourceIPv6Address", registry.IANAEnterpriseID, net.ParseIP("2001:db8::1")))
			} else {
				els = append(els, vkElem("sourceIPv4Address", registry.IANAEnterpriseID, net.IP{10, 0, 0, byte(r + 1)}))
			}
			_ = set.AddRecordV2(els, 256)
		}
	}
	m := entities.NewMessage(true)
	m.SetVersion(10)
	m.SetObsDomainID(77)
	m.SetSequenceNum(seq)
	m.SetExportTime(1700000000 + seq)
	m.SetExportAddress("10.9.8.7")
	m.AddSet(set)
	return m
}

func vkRun(schema int, counts []int, v6 bool) (string, string) {
	registry.LoadRegistry()
	var payloads [][]byte
	mock := saramamock.NewAsyncProducer(vkT{}, nil)
	total := 0
	for _, c := range counts {
		if c > 0 {
			total += c
		}
	}
	for i := 0; i < total; i++ {
		mock.ExpectInputWithCheckerFunctionAndSucceed(func(val []byte) error {
			payloads = append(payloads, append([]byte{}, val...))
			return nil
		})
	}
	in := producer.ProducerInput{KafkaTopic: "verif-topic", KafkaLogSuccesses: false}
	if schema == 1 {
		in.ProtoSchemaConvertor = NewFlowType1Convertor()
	} else {
		in.ProtoSchemaConvertor = NewFlowType2Convertor()
	}
	in.KafkaVersion = sarama.DefaultVersion
	kp, err := producer.NewKafkaProducer(in)
	if err != nil {
		return "", ""
	}
	kp.SetSaramaProducer(mock)
	ch := make(chan *entities.Message)
	done := make(chan struct{})
	go func() { kp.PublishIPFIXMessages(ch); close(done) }()
	for i, c := range counts {
		ch <- vkMsg(uint32(i), c, c < 0, v6)
	}
	close(ch)
	select {
	case <-done:
	case <-time.After(5 * time.Second):
		return "inv[L1.permsg.iter]", "PublishIPFIXMessages did not finish (fewer Kafka messages accepted than published?)"
	}
	_ = mock.Close() // waits until the mock has consumed its input
	if len(payloads) != total {
		return "inv[L1.permsg.iter]", fmt.Sprintf("%d Kafka messages published for %d data records (template messages must publish none)", len(payloads), total)
	}
	k := 0
	for i, c := range counts {
		for r := 0; r < c; r++ {
			p := payloads[k]
			k++
			if len(p) < 4 || int(binary.BigEndian.Uint32(p)) != len(p)-4 {
				return "post[framed]", fmt.Sprintf("payload %d: 4-byte big-endian length prefix does not equal the number of bytes that follow", k-1)
			}
			body := p[4:] // consumer side: strip msgDelimitLen
			var seq, dom, tm uint32
			var addr, pod string
			var sport uint32
			var pkts uint64
			if schema == 1 {
				var f protobuf.FlowType1
				if err := proto.Unmarshal(body, &f); err != nil {
					return "post[framed]", fmt.Sprintf("payload %d does not unmarshal: %v", k-1, err)
				}
				seq, dom, tm, addr, pod, sport, pkts = f.SequenceNumber, f.ObsDomainID, f.TimeReceived, f.ExportAddress, f.SrcPodName, f.SrcPort, f.PacketsTotal
			} else {
				var f protobuf.FlowType2
				if err := proto.Unmarshal(body, &f); err != nil {
					return "post[framed]", fmt.Sprintf("payload %d does not unmarshal: %v", k-1, err)
				}
				seq, dom, tm, addr, pod, sport, pkts = f.SequenceNumber, f.ObsDomainID, f.TimeReceived, f.ExportAddress, f.SrcPodName, f.SrcPort, f.PacketsTotal
			}
			if seq != uint32(i) || dom != 77 || tm != 1700000000+uint32(i) || addr != "10.9.8.7" {
				return "callpre[ProtoReflect.hdr]", fmt.Sprintf("payload %d: header fields (seq %d dom %d time %d addr %q) are not those of message %d", k-1, seq, dom, tm, addr, i)
			}
			if pod != fmt.Sprintf("pod-%d-%d", i, r) || sport != uint32(1000+r) || pkts != uint64(i)*100+uint64(r) {
				return "inv[L1.permsg.iter]", fmt.Sprintf("payload %d is not record %d of message %d (order or field values: pod %q port %d packets %d)", k-1, r, i, pod, sport, pkts)
			}
		}
	}
	return "", ""
}

type vkT struct{}

func (vkT) Errorf(format string, a ...interface{}) {}

func TestVerifReplayKafka(t *testing.T) {
	res := vkRes{}
	for _, schema := range []int{1, 2} {
		for _, v6 := range []bool{false, true} {
			for _, counts := range [][]int{{1}, {-1}, {3}, {-1, 2, -1, 1}, {2, 3, 1}, {-1, -1}, {1, -1, 4}} {
				res.Tried++
				if cl, d := vkRun(schema, counts, v6); cl != "" {
					res.Reproduced, res.Clause, res.Detail = true, cl, d
					res.Input = map[string]interface{}{"schema": schema, "ipv6": v6, "records_per_message(-1=template)": counts}
					goto out
				}
			}
		}
	}
out:
	data, _ := json.MarshalIndent(res, "", " ")
	if p := os.Getenv("VERIF_REPLAY_OUT"); p != "" {
		os.WriteFile(p, data, 0o644)
	}
	fmt.Println(string(data))
}
