package registry

// Enumeration of the loaded registry (in-package, injected with go test -overlay):
// the side condition regInv assumed by the collector contracts, checked entry by
// entry instead of deduced: every element found under (enterprise, id) carries that
// id and enterprise number, has a name, and a fixed-width type has its RFC width;
// and regNameInv (aggregation seeding): every by-name entry carries that name.

import (
	"encoding/json"
	"fmt"
	"os"
	"testing"

	"github.com/vmware/go-ipfix/pkg/entities"
)

func vrWidth(d entities.IEDataType) int {
	switch d {
	case entities.Unsigned8, entities.Signed8, entities.Boolean:
		return 1
	case entities.Unsigned16, entities.Signed16:
		return 2
	case entities.Unsigned32, entities.Signed32, entities.Float32, entities.DateTimeSeconds, entities.Ipv4Address:
		return 4
	case entities.Unsigned64, entities.Signed64, entities.Float64, entities.DateTimeMilliseconds:
		return 8
	case entities.MacAddress:
		return 6
	case entities.Ipv6Address:
		return 16
	}
	return 65535
}

func TestVerifEnumRegistry(t *testing.T) {
	LoadRegistry()
	type res struct {
		Reproduced bool        `json:"reproduced"`
		Clause     string      `json:"clause,omitempty"`
		Detail     string      `json:"detail,omitempty"`
		Input      interface{} `json:"input,omitempty"`
		Tried      int         `json:"tried"`
		ByName     int         `json:"by_name_checked"`
	}
	r := res{}
	for ent, m := range globalRegistryByID {
		if m == nil {
			r.Reproduced, r.Clause, r.Detail = true, "regInv", fmt.Sprintf("nil registry for enterprise %d", ent)
			break
		}
		for id, e := range m {
			r.Tried++
			bad := ""
			switch {
			case e == nil:
				bad = "nil element"
			case e.ElementId != id || e.EnterpriseId != ent:
				bad = "element stored under another (enterprise, id)"
			case e.Name == "" && (e.DataType <= entities.DateTimeMilliseconds || e.DataType == entities.Ipv4Address || e.DataType == entities.Ipv6Address):
				bad = "supported element with an empty name (the collector treats empty names as unknown elements)"
			case e.DataType != entities.OctetArray && e.DataType <= entities.Ipv6Address && e.DataType != entities.DateTimeMicroseconds && e.DataType != entities.DateTimeNanoseconds && e.DataType != entities.String && int(e.Len) != vrWidth(e.DataType):
				bad = fmt.Sprintf("type %d with length %d", e.DataType, e.Len)
			case e.DataType == entities.String && e.Len != 65535:
				bad = "string with fixed length"
			}
			if bad == "" && e.Name != "" {
				// by-name and by-id agree
				if n, err := GetInfoElement(e.Name, ent); err != nil || n != e {
					bad = "by-name lookup does not return the same element"
				} else {
					r.ByName++
				}
			}
			if bad != "" && !r.Reproduced {
				r.Reproduced, r.Clause, r.Detail, r.Input = true, "regInv", bad, map[string]interface{}{"enterprise": ent, "id": id}
			}
		}
	}
	// regNameInv: every by-name entry is a non-nil element that carries that name
	for ent, m := range globalRegistryByName {
		for name, e := range m {
			r.Tried++
			if (e == nil || e.Name != name) && !r.Reproduced {
				r.Reproduced, r.Clause, r.Detail, r.Input = true, "regNameInv", "by-name entry is nil or carries another name", map[string]interface{}{"enterprise": ent, "name": name}
			}
		}
	}
	data, _ := json.MarshalIndent(r, "", " ")
	if p := os.Getenv("VERIF_REPLAY_OUT"); p != "" {
		os.WriteFile(p, data, 0o644)
	}
	fmt.Println(string(data))
}
