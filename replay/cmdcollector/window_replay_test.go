package main

// Replay / directed-search driver for the standalone collector's record store (C20): in-package,
// injected with go test -overlay. It drives the real addIPFIXMessage / flowRecordHandler /
// resetRecordHandler and reports the first contract clause that does not hold.

import (
	"encoding/json"
	"fmt"
	"net"
	"net/http"
	"net/http/httptest"
	"os"
	"strings"
	"testing"

	"github.com/vmware/go-ipfix/pkg/entities"
)

type vrWinRes struct {
	Reproduced bool        `json:"reproduced"`
	Clause     string      `json:"clause,omitempty"`
	Detail     string      `json:"detail,omitempty"`
	Input      interface{} `json:"input,omitempty"`
	Tried      int         `json:"tried"`
}

// vrElems: one element of every data type the decoder supports, with a recognisable value.
func vrElems() ([]entities.InfoElementWithValue, []string) {
	mk := func(name string, dt entities.IEDataType, l uint16) *entities.InfoElement {
		return entities.NewInfoElement(name, 1, dt, 0, l)
	}
	var es []entities.InfoElementWithValue
	var want []string
	add := func(e entities.InfoElementWithValue, shown interface{}) {
		es = append(es, e)
		want = append(want, fmt.Sprintf("%s: %v", e.GetInfoElement().Name, shown))
	}
	add(entities.NewUnsigned8InfoElement(mk("fU8", entities.Unsigned8, 1), 201), uint8(201))
	add(entities.NewUnsigned16InfoElement(mk("fU16", entities.Unsigned16, 2), 60001), uint16(60001))
	add(entities.NewUnsigned32InfoElement(mk("fU32", entities.Unsigned32, 4), 4000000001), uint32(4000000001))
	add(entities.NewUnsigned64InfoElement(mk("fU64", entities.Unsigned64, 8), 18000000000000000001), uint64(18000000000000000001))
	add(entities.NewSigned8InfoElement(mk("fS8", entities.Signed8, 1), -101), int8(-101))
	add(entities.NewSigned16InfoElement(mk("fS16", entities.Signed16, 2), -30001), int16(-30001))
	add(entities.NewSigned32InfoElement(mk("fS32", entities.Signed32, 4), -2000000001), int32(-2000000001))
	add(entities.NewSigned64InfoElement(mk("fS64", entities.Signed64, 8), -9000000000000000001), int64(-9000000000000000001))
	add(entities.NewFloat32InfoElement(mk("fF32", entities.Float32, 4), 1.5), float32(1.5))
	add(entities.NewFloat64InfoElement(mk("fF64", entities.Float64, 8), -2.25), float64(-2.25))
	add(entities.NewBoolInfoElement(mk("fBool", entities.Boolean, 1), true), true)
	add(entities.NewDateTimeSecondsInfoElement(mk("fSec", entities.DateTimeSeconds, 4), 1700000001), uint32(1700000001))
	add(entities.NewDateTimeMillisecondsInfoElement(mk("fMsec", entities.DateTimeMilliseconds, 8), 1700000000123), uint64(1700000000123))
	add(entities.NewMacAddressInfoElement(mk("fMac", entities.MacAddress, 6), net.HardwareAddr{0xaa, 0xbb, 0xcc, 0xdd, 0xee, 0x01}), net.HardwareAddr{0xaa, 0xbb, 0xcc, 0xdd, 0xee, 0x01})
	add(entities.NewIPAddressInfoElement(mk("fIP4", entities.Ipv4Address, 4), net.ParseIP("10.11.12.13").To4()), net.ParseIP("10.11.12.13").To4())
	add(entities.NewIPAddressInfoElement(mk("fIP6", entities.Ipv6Address, 16), net.ParseIP("2001:db8::17")), net.ParseIP("2001:db8::17"))
	add(entities.NewStringInfoElement(mk("fStr", entities.String, 65535), "pod-xyz"), "pod-xyz")
	add(entities.NewOctetArrayInfoElement(mk("fOct", entities.OctetArray, 65535), []byte{0xde, 0xad, 0xbe, 0xef}), []byte{0xde, 0xad, 0xbe, 0xef})
	add(entities.NewOctetArrayInfoElement(mk("fOct4", entities.OctetArray, 4), []byte{1, 2, 3, 4}), []byte{1, 2, 3, 4})
	return es, want
}

func vrDataMsg(tag int) (*entities.Message, []string) {
	es, want := vrElems()
	es = append(es, entities.NewUnsigned32InfoElement(entities.NewInfoElement("fTag", 2, entities.Unsigned32, 0, 4), uint32(tag)))
	want = append(want, fmt.Sprintf("fTag: %d", tag))
	set := entities.NewSet(true)
	_ = set.PrepareSet(entities.Data, 256)
	_ = set.AddRecordV2(es, 256)
	msg := entities.NewMessage(true)
	msg.SetVersion(10)
	msg.SetObsDomainID(1)
	msg.AddSet(set)
	return msg, want
}

func vrWindow() (string, string, interface{}) {
	// 1. every field of a record appears by name and value
	mutex.Lock()
	flowRecords = nil
	mutex.Unlock()
	msg, want := vrDataMsg(7)
	addIPFIXMessage(msg)
	if len(flowRecords) != 1 {
		return "post[len]", fmt.Sprintf("store holds %d entries after one message", len(flowRecords)), nil
	}
	for _, w := range want {
		if !strings.Contains(flowRecords[0], w) {
			return "callpre[fmt.Fprintf.value]", fmt.Sprintf("the rendered entry does not contain %q: the field's value is not rendered", w), w
		}
	}
	// 2. bounded ordered window, runs that exceed the cap several times over
	mutex.Lock()
	flowRecords = nil
	mutex.Unlock()
	total := 2*maxFlowRecords + 37
	for i := 0; i < total; i++ {
		m, _ := vrDataMsg(i)
		addIPFIXMessage(m)
		if len(flowRecords) > maxFlowRecords {
			return "post[cap]", fmt.Sprintf("store holds %d entries after %d messages (cap %d)", len(flowRecords), i+1, maxFlowRecords), i
		}
		wantLen := i + 1
		if wantLen > maxFlowRecords {
			wantLen = maxFlowRecords
		}
		if len(flowRecords) != wantLen {
			return "post[len]", fmt.Sprintf("store holds %d entries after %d messages, want %d", len(flowRecords), i+1, wantLen), i
		}
		if i%509 == 0 || i == total-1 {
			for k := 0; k < len(flowRecords); k++ {
				tag := fmt.Sprintf("fTag: %d ", i+1-len(flowRecords)+k)
				if !strings.Contains(flowRecords[k], tag) {
					return "post[window]", fmt.Sprintf("after %d messages entry %d is not message %d (arrival order / most recent window broken)", i+1, k, i+1-len(flowRecords)+k), i
				}
			}
		}
	}
	// 3. queries
	type q struct {
		url    string
		status int
		n      int
	}
	stored := len(flowRecords)
	for _, c := range []q{{"/records", 200, stored}, {"/records?count=0", 200, 0}, {"/records?count=1", 200, 1}, {"/records?count=5&format=text", 200, 5},
		{"/records?count=5&format=json", 200, 5}, {"/records?count=999999", 200, stored}, {"/records?count=-1", 400, 0}, {"/records?count=x", 400, 0},
		{"/records?format=xml", 400, 0}, {"/records?count=3&format=xml", 400, 0}} {
		rr := httptest.NewRecorder()
		flowRecordHandler(rr, httptest.NewRequest("GET", c.url, nil))
		if rr.Code != c.status {
			return "post[refuse]", fmt.Sprintf("GET %s answered %d, want %d", c.url, rr.Code, c.status), c.url
		}
		if c.status != 200 {
			continue
		}
		var got []string
		if strings.Contains(c.url, "format=text") {
			for _, part := range strings.Split(rr.Body.String(), string(flowTextSeparator)) {
				if part != "" {
					got = append(got, part)
				}
			}
		} else {
			var jr jsonResponse
			if err := json.Unmarshal(rr.Body.Bytes(), &jr); err != nil {
				return "post[json]", fmt.Sprintf("GET %s: body is not the JSON response: %v", c.url, err), c.url
			}
			got = jr.FlowRecords
		}
		clause := "post[json]"
		if strings.Contains(c.url, "format=text") {
			clause = "post[text]"
		}
		if len(got) != c.n {
			return clause, fmt.Sprintf("GET %s returned %d entries, want %d", c.url, len(got), c.n), c.url
		}
		for k := range got {
			if got[k] != flowRecords[len(flowRecords)-c.n+k] {
				return clause, fmt.Sprintf("GET %s: entry %d is not the %d-th most recent stored entry", c.url, k, c.n-k), c.url
			}
		}
	}
	rr := httptest.NewRecorder()
	flowRecordHandler(rr, httptest.NewRequest("POST", "/records", nil))
	if rr.Code != http.StatusMethodNotAllowed {
		return "post[method]", fmt.Sprintf("POST /records answered %d", rr.Code), nil
	}
	rr = httptest.NewRecorder()
	resetRecordHandler(rr, httptest.NewRequest("GET", "/reset", nil))
	if rr.Code != http.StatusMethodNotAllowed || len(flowRecords) != stored {
		return "post[other]", fmt.Sprintf("GET /reset answered %d and left %d entries", rr.Code, len(flowRecords)), nil
	}
	rr = httptest.NewRecorder()
	resetRecordHandler(rr, httptest.NewRequest("POST", "/reset", nil))
	if rr.Code != 200 || len(flowRecords) != 0 {
		return "post[reset]", fmt.Sprintf("POST /reset answered %d and left %d entries", rr.Code, len(flowRecords)), nil
	}
	return "", "", nil
}

func TestVerifReplayWindow(t *testing.T) {
	res := vrWinRes{Tried: 1}
	func() {
		defer func() {
			if r := recover(); r != nil {
				res.Reproduced, res.Clause, res.Detail = true, "safe", fmt.Sprint("panic: ", r)
			}
		}()
		if cl, d, in := vrWindow(); cl != "" {
			res.Reproduced, res.Clause, res.Detail, res.Input = true, cl, d, in
		}
	}()
	data, _ := json.MarshalIndent(res, "", " ")
	if p := os.Getenv("VERIF_REPLAY_OUT"); p != "" {
		os.WriteFile(p, data, 0o644)
	}
	fmt.Println(string(data))
}
