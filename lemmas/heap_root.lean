/-
  The one postcondition of the container/heap contracts (models/heap.spec) that the SMT solvers cannot derive:
  heap order between every position and its parent implies that position 0 holds a minimum (clauses `assumed_root`).
  Here `a k` stands for minExp(pq[k]) and `n` for len(pq); the hypothesis is the predicate heapOrd(pq, n) of heap.spec,
  the conclusion is minAtRoot(pq). The transcription between the SMT predicates and this statement is by hand.
  Checked with: lean /verif/lemmas/heap_root.lean   (Lean 4 core only, no Mathlib)
-/
theorem heap_root (a : Nat → Int) (n : Nat)
    (h : ∀ k, 1 ≤ k → k < n → a ((k - 1) / 2) ≤ a k) :
    ∀ k, k < n → a 0 ≤ a k := by
  intro k
  induction k using Nat.strongRecOn with
  | _ k ih =>
    intro hk
    cases Nat.eq_zero_or_pos k with
    | inl h0 => subst h0; exact Int.le_refl _
    | inr hpos =>
      have hlt : (k - 1) / 2 < k := by omega
      have h1 : a 0 ≤ a ((k - 1) / 2) := ih ((k - 1) / 2) hlt (by omega)
      exact Int.le_trans h1 (h k hpos hk)
